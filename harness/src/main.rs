use mcv::engine::*;
use mcv::props;
use std::time::Instant;

fn run_property<P: Property>(p: &P, tier: Tier) -> i32 {
    let started = Instant::now();
    let cfg = RunCfg::from_env(tier);
    let known = load_known_findings();
    let mut stats = Stats::default();
    // regression tier: committed replay files
    let replays = run_replays(p, &known, &mut stats);
    for (f, sig, reproduced) in &replays {
        if let Some(k) = known.iter().find(|k| k.property == p.id() && &k.signature == sig && k.status == "known") {
            if !*reproduced {
                println!("note: known finding '{}' no longer reproduces from {} (fixed upstream? update known_findings.json)", k.signature, f);
            }
        }
    }
    stats.extra.insert("replayed_files".into(), serde_json::json!(replays.len()));
    p.extra_phases(&cfg, &known, &mut stats);
    let n_explicit = p.explicit_cases(tier).len();
    if n_explicit > 0 {
        let s = run_generated(p, &cfg, n_explicit, "explicit", &known);
        stats.merge(s);
        stats.extra.insert("enumerated_cases".into(), serde_json::json!(n_explicit));
    }
    let (q, t) = p.cases();
    let n = cfg.cases(q, t);
    if q > 0 {
        let s = run_generated(p, &cfg, n, "main", &known);
        stats.merge(s);
    }
    finish(p, &cfg, &stats, &known, started, p.level())
}

fn replay_one<P: Property>(p: &P, file: &str) -> i32 {
    let text = std::fs::read_to_string(file).expect("read replay file");
    let v: serde_json::Value = serde_json::from_str(&text).expect("replay JSON");
    let case = p.from_json(&v["case"]).expect("decode case");
    let out = if p.own_sessions() { p.eval(&case) } else { in_session(&p.rules_dir(), || p.eval(&case)) };
    let viols = out.violations();
    println!("replay {} -> {:?}", file, out.verdict);
    for (s, d) in &viols {
        println!("VIOLATION property={} replay={}\n  signature: {}\n  detail: {}", p.id(), file, s, d);
    }
    if viols.is_empty() {
        0
    } else {
        1
    }
}

fn worker_entry<P: Property>(p: &P, tier: Tier, stream: &str, start: usize, end: usize) -> i32 {
    let cfg = RunCfg::from_env(tier);
    let known = load_known_findings();
    worker_main(p, &cfg, stream, start, end, &known);
    0
}

macro_rules! dispatch {
    ($id:expr, $f:ident $(, $arg:expr)*) => {
        match $id {
            "C01" => $f(&props::c01::C01 $(, $arg)*),
            "C02" => $f(&props::c02::C02 $(, $arg)*),
            "C08" => $f(&props::c08::C08 $(, $arg)*),
            "C18" => $f(&props::c18::C18 $(, $arg)*),
            "C17" => $f(&props::c17::C17 $(, $arg)*),
            "C16" => $f(&props::c16::C16 $(, $arg)*),
            "C03" => $f(&props::c03::C03 $(, $arg)*),
            "C04" => $f(&props::c04::C04 $(, $arg)*),
            "C05" => $f(&props::c05::C05 $(, $arg)*),
            "C07" => $f(&props::c07::C07 $(, $arg)*),
            "C06" => $f(&props::c06::C06 $(, $arg)*),
            "C13" => $f(&props::c13::C13 $(, $arg)*),
            "C19" => $f(&props::c19::C19 $(, $arg)*),
            "C12" => $f(&props::c12::C12 $(, $arg)*),
            "C10" => $f(&props::c10::C10 $(, $arg)*),
            "C20" => $f(&props::c20::C20 $(, $arg)*),
            "C11" => $f(&props::c11::C11 $(, $arg)*),
            "C09" => $f(&props::c09::C09 $(, $arg)*),
            "C14" => $f(&props::c14::C14 $(, $arg)*),
            "C15" => $f(&props::c15::C15 $(, $arg)*),
            other => {
                eprintln!("unknown property {}", other);
                3
            }
        }
    };
}

fn main() {
    let args: Vec<String> = std::env::args().collect();
    if args.len() < 3 {
        eprintln!("usage: mcv check <ID> <quick|thorough> | mcv replay <ID> <file>");
        std::process::exit(3);
    }
    pin_environment();
    install_panic_hook();
    let code = match args[1].as_str() {
        "check" => {
            let tier = if args.get(3).map(|s| s.as_str()) == Some("thorough") { Tier::Thorough } else { Tier::Quick };
            dispatch!(args[2].as_str(), run_property, tier)
        }
        "bt" => {
            // debugging aid: print the raw backtrace of a panic
            std::panic::set_hook(Box::new(|i| { eprintln!("{}\n{}", i, std::backtrace::Backtrace::force_capture()); }));
            in_session(REPO_RULES, || { let x = args[2].clone(); let _ = std::panic::catch_unwind(move || libmathcat::set_mathml(x)); });
            0
        }
        "depth-child" => props::c08::depth_child(&args[2], args[3].parse().unwrap()),
        "worker" => {
            // mcv worker <ID> <tier> <stream> <start> <end>
            let tier = if args[3] == "thorough" { Tier::Thorough } else { Tier::Quick };
            let (stream, start, end) = (args[4].clone(), args[5].parse::<usize>().unwrap(), args[6].parse::<usize>().unwrap());
            dispatch!(args[2].as_str(), worker_entry, tier, &stream, start, end)
        }
        "replay-json" => {
            let file = args[3].clone();
            dispatch!(args[2].as_str(), replay_json_main, &file)
        }
        "replay" => {
            let file = args[3].clone();
            dispatch!(args[2].as_str(), replay_one, &file)
        }
        "fuzz-corpus" => {
            // mcv fuzz-corpus <C02|C08|C19> <dir>: seed inputs for the libFuzzer target of that property
            let dir = args[3].clone();
            std::fs::create_dir_all(&dir).expect("create corpus dir");
            let mut n = 0;
            if args[2] == "C19" {
                for (i, intent) in ["f($a,$b)", "plus($a,$b)", "$a", ":prefix", "foo($a)($b)", "binomial($a, $b)", "_($a)", "f(", "$", "foo:infix($a,$b)", ""].iter().enumerate() {
                    for host in 0..3u8 {
                        let mut v = vec![host * 3, (i % 2) as u8, 0];
                        v.extend_from_slice(intent.as_bytes());
                        std::fs::write(format!("{}/seed-{}-{}", dir, i, host), v).unwrap();
                        n += 1;
                    }
                }
            } else {
                for (i, e) in props::c15::corpus().iter().enumerate() {
                    if e.len() < 700 && i % 3 == 0 {
                        let mut v = vec![0u8];
                        v.extend_from_slice(e.as_bytes());
                        std::fs::write(format!("{}/seed-{}", dir, i), v).unwrap();
                        n += 1;
                    }
                }
            }
            println!("{} seed files written to {}", n, dir);
            0
        }
        "fuzz-gen-corpus" => {
            // mcv fuzz-gen-corpus <ID> <dir> [n]: random choice strings for the generic target (pure function of VERIF_SEED)
            let dir = args[3].clone();
            std::fs::create_dir_all(&dir).expect("create corpus dir");
            let n: u64 = args.get(4).and_then(|s| s.parse().ok()).unwrap_or(96);
            let seed: u64 = std::env::var("VERIF_SEED").ok().and_then(|s| s.parse().ok()).unwrap_or(20260926);
            for i in 0..n {
                let len = [256usize, 1024, 4096][(i % 3) as usize];
                let mut v = Vec::with_capacity(len);
                let mut k = 0u64;
                while v.len() < len {
                    v.extend_from_slice(&fnv64(&[&seed.to_le_bytes(), args[2].as_bytes(), b"gen-corpus", &i.to_le_bytes(), &k.to_le_bytes()]).to_le_bytes());
                    k += 1;
                }
                std::fs::write(format!("{}/seed-{}", dir, i), v).unwrap();
            }
            println!("{} seed files written to {}", n, dir);
            0
        }
        "defwords" => {
            let mut m: std::collections::BTreeMap<(String, String, bool), usize> = Default::default();
            for w in mcv::gen::definition_words() {
                *m.entry((w.file.replace("/repo/Rules/", ""), w.set.clone(), w.rare)).or_default() += 1;
            }
            for ((f, s, r), n) in m {
                println!("{:45} {:40} rare={} n={}", f, s, r, n);
            }
            0
        }
        "fuzz-gen-show" => {
            // mcv fuzz-gen-show <ID> <file>: the case a saved input of the generic target selects
            let data = std::fs::read(&args[3]).expect("read input");
            println!("{}", mcv::fuzzing::case_json_from_bytes(&args[2], &data));
            0
        }
        "fuzz-gen-replay" => {
            // mcv fuzz-gen-replay <ID> <file>...: evaluate saved inputs of the generic target with the stable build
            let mut bad = 0;
            for f in &args[3..] {
                let Ok(data) = std::fs::read(f) else { continue };
                for (sig, detail) in mcv::fuzzing::evaluate_bytes(&args[2], &data) {
                    bad += 1;
                    println!("VIOLATION property={} replay={}\n  signature: {}\n  detail: {}", args[2], f, sig, detail.chars().take(600).collect::<String>().replace('\n', "\n    "));
                }
            }
            if bad > 0 {
                1
            } else {
                0
            }
        }
        "fuzz-replay" => {
            // mcv fuzz-replay <C02|C08|C19> <file>...: evaluate saved fuzzer inputs with the stable build
            static P02: props::c02::C02 = props::c02::C02;
            static P08: mcv::fuzzing::C08Expr = mcv::fuzzing::C08Expr;
            static P19: props::c19::C19 = props::c19::C19;
            let mut bad = 0;
            for f in &args[3..] {
                let Ok(data) = std::fs::read(f) else { continue };
                let v = match args[2].as_str() {
                    "C02" => mcv::fuzzing::evaluate(&P02, mcv::fuzzing::c02_case(&data)),
                    "C08" => mcv::fuzzing::evaluate(&P08, mcv::fuzzing::c08_case(&data)),
                    "C19" => mcv::fuzzing::evaluate(&P19, mcv::fuzzing::c19_case(&data)),
                    _ => vec![],
                };
                for (sig, detail) in v {
                    bad += 1;
                    println!("VIOLATION property={} replay={}\n  signature: {}\n  detail: {}", args[2], f, sig, detail.chars().take(600).collect::<String>().replace('\n', "\n    "));
                }
            }
            if bad > 0 {
                1
            } else {
                0
            }
        }
        "show" => {
            // mcv show speech|braille|canon '<math>..</math>' [pref=value ...]
            let what = args[2].clone();
            let xml = args[3].clone();
            let prefs: Vec<(String, String)> = args[4..].iter().filter_map(|a| a.split_once('=').map(|(k, v)| (k.to_string(), v.to_string()))).collect();
            in_session(REPO_RULES, || {
                for (k, v) in &prefs {
                    println!("set_preference({},{}) -> {:?}", k, v, api::set_pref(k, v).map_err(|e| e.text()));
                }
                match api::set_mathml(&xml) {
                    Ok(s) => println!("{}", s),
                    Err(e) => println!("set_mathml: {}", e.text()),
                }
                if what.contains("speech") {
                    println!("speech: {:?}", api::speech().map_err(|e| e.text()));
                }
                if what.contains("braille") {
                    println!("braille: {:?}", api::braille("").map_err(|e| e.text()));
                }
                if what.contains("overview") {
                    println!("overview: {:?}", api::overview().map_err(|e| e.text()));
                }
                // mcv show nav:ZoomIn,MoveNext,... '<math>..</math>'
                if let Some(cmds) = what.split(' ').find_map(|w| w.strip_prefix("nav:")) {
                    for c in cmds.split(',') {
                        let r = api::nav_cmd(c).map_err(|e| e.text());
                        println!("{} -> {:?}   at {:?}", c, r, api::nav_id().map_err(|e| e.text().chars().take(80).collect::<String>()));
                    }
                }
            });
            0
        }
        _ => 3,
    };
    cleanup_scratch();
    std::process::exit(code);
}
