//! Shared machinery: sessions, panic capture, API wrappers, the generated-case driver
//! (generation, known-finding exclusion, confirmation in a fresh session, shrinking),
//! evidence and replay files.  See DESIGN.md section 1.
#![allow(dead_code)]

use proptest::strategy::{BoxedStrategy, Strategy, ValueTree};
use proptest::test_runner::{Config, RngAlgorithm, TestRng, TestRunner};
use serde_json::{json, Value};
use std::cell::{Cell, RefCell};
use std::collections::{BTreeMap, BTreeSet, HashSet};
use std::panic::{self, AssertUnwindSafe};
use std::sync::atomic::{AtomicBool, AtomicUsize, Ordering};
use std::sync::Mutex;
use std::time::{Duration, Instant};

/// root of the verification tree (MCV_verif_dir(), set by ./check to its own directory; default /verif)
pub fn verif_dir() -> String {
    std::env::var("MCV_VERIF_DIR").unwrap_or_else(|_| "/verif".to_string())
}
pub const REPO_RULES: &str = "/repo/Rules";
pub const SESSION_STACK: usize = 8 * 1024 * 1024;

// ------------------------------------------------------------------------------------------
// tiers / run configuration

#[derive(Clone, Copy, Debug, PartialEq, Eq)]
pub enum Tier {
    Quick,
    Thorough,
}
impl Tier {
    pub fn name(self) -> &'static str {
        match self {
            Tier::Quick => "quick",
            Tier::Thorough => "thorough",
        }
    }
}

#[derive(Clone, Debug)]
pub struct RunCfg {
    pub tier: Tier,
    pub seed: u64,
    pub workers: usize,
    /// multiply the number of generated cases (VERIF_SCALE, default 1.0) -- used for fast smoke runs
    pub scale: f64,
}

impl RunCfg {
    pub fn from_env(tier: Tier) -> RunCfg {
        let seed = std::env::var("VERIF_SEED").ok().and_then(|s| s.trim().parse::<i128>().ok()).map(|v| v as u64).unwrap_or(20260926);
        let workers = std::env::var("VERIF_WORKERS").ok().and_then(|s| s.parse().ok()).unwrap_or(16);
        let scale = std::env::var("VERIF_SCALE").ok().and_then(|s| s.parse().ok()).unwrap_or(1.0);
        RunCfg { tier, seed, workers, scale }
    }
    pub fn cases(&self, quick: usize, thorough: usize) -> usize {
        let n = if self.tier == Tier::Quick { quick } else { thorough };
        ((n as f64 * self.scale) as usize).max(1)
    }
}

pub fn fnv64(parts: &[&[u8]]) -> u64 {
    let mut h: u64 = 0xcbf29ce484222325;
    for p in parts {
        for b in *p {
            h ^= *b as u64;
            h = h.wrapping_mul(0x100000001b3);
        }
        h ^= 0xff;
        h = h.wrapping_mul(0x100000001b3);
    }
    h
}

pub fn hash_str(s: &str) -> u64 {
    fnv64(&[s.as_bytes()])
}

/// A proptest runner whose randomness is a pure function of (seed, property, stream, index).
pub fn runner_for(seed: u64, prop: &str, stream: &str, index: u64) -> TestRunner {
    let mut bytes = [0u8; 32];
    for k in 0..4u64 {
        let h = fnv64(&[&seed.to_le_bytes(), prop.as_bytes(), stream.as_bytes(), &index.to_le_bytes(), &k.to_le_bytes()]);
        bytes[(k as usize) * 8..(k as usize) * 8 + 8].copy_from_slice(&h.to_le_bytes());
    }
    let rng = TestRng::from_seed(RngAlgorithm::ChaCha, &bytes);
    let config = Config { failure_persistence: None, ..Config::default() };
    TestRunner::new_with_rng(config, rng)
}

// ------------------------------------------------------------------------------------------
// environment pinning

static SCRATCH: Mutex<Option<String>> = Mutex::new(None);

/// Directory private to this process (removed by `cleanup_scratch`).
pub fn scratch_dir() -> String {
    let mut g = SCRATCH.lock().unwrap();
    if g.is_none() {
        let base = std::env::var("MCV_SCRATCH_BASE").unwrap_or_else(|_| format!("{}/harness/target/scratch", verif_dir()));
        let d = format!("{}/{}", base, std::process::id());
        let _ = std::fs::remove_dir_all(&d);
        std::fs::create_dir_all(format!("{}/home/.config", d)).expect("create scratch");
        *g = Some(d);
    }
    g.clone().unwrap()
}

pub fn cleanup_scratch() {
    let g = SCRATCH.lock().unwrap();
    if let Some(d) = g.as_ref() {
        let _ = std::fs::remove_dir_all(d);
    }
}

/// MathCAT reads a user prefs.yaml from dirs::config_dir(): pin HOME/XDG to an empty directory.
pub fn pin_environment() {
    let d = scratch_dir();
    std::env::set_var("HOME", format!("{}/home", d));
    std::env::set_var("XDG_CONFIG_HOME", format!("{}/home/.config", d));
    std::env::remove_var("MathCATRulesDir");
    std::env::remove_var("RUST_LOG");
}

// ------------------------------------------------------------------------------------------
// panic capture

#[derive(Clone, Debug)]
pub struct PanicInfo {
    pub msg: String,
    pub loc: String,
    pub frame: String,
}

impl PanicInfo {
    pub fn signature(&self) -> String {
        let mut m: String = self.msg.chars().map(|c| if c.is_ascii_digit() || !c.is_ascii() { '#' } else { c }).collect();
        // collapse runs of '#'
        while m.contains("##") {
            m = m.replace("##", "#");
        }
        let m: String = m.chars().take(70).collect();
        let m = m.replace(['\n', '\r'], " ");
        format!("panic:{}:{}", self.frame, m.trim())
    }
}

thread_local! {
    static LAST_PANIC: RefCell<Option<PanicInfo>> = const { RefCell::new(None) };
    static CAPTURE: Cell<bool> = const { Cell::new(false) };
    /// set when a MathCAT call panicked in this thread: stateless drivers start a new session
    pub static TAINTED: Cell<bool> = const { Cell::new(false) };
}

fn innermost_mathcat_frame(bt: &str) -> String {
    // frames look like "  10: set_string_pref\n             at /repo/src/prefs.rs:690:36" (the "at" line may be missing)
    let lines: Vec<&str> = bt.lines().collect();
    let mut frames: Vec<(String, Option<String>)> = vec![];
    for l in &lines {
        let t = l.trim_start();
        if let Some(loc) = t.strip_prefix("at ") {
            if let Some(last) = frames.last_mut() {
                if last.1.is_none() {
                    last.1 = Some(loc.to_string());
                }
            }
        } else if let Some(pos) = t.find(": ") {
            if t[..pos].chars().all(|c| c.is_ascii_digit()) && pos > 0 {
                frames.push((t[pos + 2..].to_string(), None));
            }
        }
    }
    let mut seen_panic_machinery = false;
    let mut helper: Option<String> = None;
    for (name, at) in &frames {
        let is_std = name.starts_with("core::") || name.starts_with("std::") || name.starts_with("alloc::") || name.starts_with("__rustc") || name.starts_with('<');
        if name.contains("panicking") || name.contains("rust_begin_unwind") || name.contains("panic_") {
            seen_panic_machinery = true;
            continue;
        }
        if !seen_panic_machinery || is_std {
            continue;
        }
        if let Some(at) = at {
            if at.starts_with("/rustc/") || at.starts_with("./src/") || at.contains("/.cargo/registry/") {
                continue;
            }
        }
        let n = name.split('<').next().unwrap_or("").trim();
        if n.starts_with("{closure") || n.is_empty() {
            continue;
        }
        let short = n.rsplit("::").next().unwrap_or(n).to_string();
        // tiny helpers say little about the call site: add their caller
        if ["as_element", "as_text", "get_parent", "name", "top", "pop"].contains(&short.as_str()) && helper.is_none() {
            helper = Some(short);
            continue;
        }
        return match helper {
            Some(h) => format!("{}<-{}", h, short),
            None => short,
        };
    }
    helper.unwrap_or_else(|| "?".to_string())
}

pub fn install_panic_hook() {
    let default = panic::take_hook();
    panic::set_hook(Box::new(move |info| {
        if CAPTURE.with(|c| c.get()) {
            let msg = if let Some(s) = info.payload().downcast_ref::<&str>() {
                s.to_string()
            } else if let Some(s) = info.payload().downcast_ref::<String>() {
                s.clone()
            } else {
                "<non-string panic>".to_string()
            };
            let loc = info.location().map(|l| format!("{}:{}", l.file(), l.line())).unwrap_or_default();
            let bt = std::backtrace::Backtrace::force_capture().to_string();
            let func = innermost_mathcat_frame(&bt);
            let file = info.location().map(|l| l.file().rsplit('/').next().unwrap_or("").trim_end_matches(".rs").to_string()).unwrap_or_default();
            let frame = format!("{}::{}", file, func);
            LAST_PANIC.with(|p| *p.borrow_mut() = Some(PanicInfo { msg, loc, frame }));
        } else {
            default(info);
        }
    }));
}

#[derive(Clone, Debug)]
pub enum Fail {
    Err(String),
    Panic(PanicInfo),
}
impl Fail {
    pub fn is_panic(&self) -> bool {
        matches!(self, Fail::Panic(_))
    }
    pub fn text(&self) -> String {
        match self {
            Fail::Err(s) => s.clone(),
            Fail::Panic(p) => format!("PANIC {} at {} in {}", p.msg, p.loc, p.frame),
        }
    }
}
pub type Api<T> = Result<T, Fail>;

/// Run one MathCAT call; a panic is turned into `Fail::Panic` and the thread is marked tainted.
pub fn guard<T>(f: impl FnOnce() -> libmathcat::errors::Result<T>) -> Api<T> {
    CAPTURE.with(|c| c.set(true));
    let r = panic::catch_unwind(AssertUnwindSafe(f));
    CAPTURE.with(|c| c.set(false));
    match r {
        Ok(Ok(v)) => Ok(v),
        Ok(Err(e)) => Err(Fail::Err(libmathcat::errors_to_string(&e))),
        Err(_) => {
            TAINTED.with(|t| t.set(true));
            let p = LAST_PANIC.with(|p| p.borrow_mut().take()).unwrap_or(PanicInfo { msg: "?".into(), loc: "".into(), frame: "?".into() });
            Err(Fail::Panic(p))
        }
    }
}

/// Thin wrappers over the public API (the only way the harness touches MathCAT).
pub mod api {
    use super::{guard, Api};
    pub fn set_rules_dir(d: &str) -> Api<()> {
        let d = d.to_string();
        guard(move || libmathcat::set_rules_dir(d))
    }
    pub fn set_mathml(s: &str) -> Api<String> {
        let s = s.to_string();
        guard(move || libmathcat::set_mathml(s))
    }
    pub fn set_pref(n: &str, v: &str) -> Api<()> {
        let (n, v) = (n.to_string(), v.to_string());
        guard(move || libmathcat::set_preference(n, v))
    }
    pub fn get_pref(n: &str) -> Api<String> {
        let n = n.to_string();
        guard(move || libmathcat::get_preference(n))
    }
    pub fn speech() -> Api<String> {
        guard(libmathcat::get_spoken_text)
    }
    pub fn overview() -> Api<String> {
        guard(libmathcat::get_overview_text)
    }
    pub fn braille(id: &str) -> Api<String> {
        let id = id.to_string();
        guard(move || libmathcat::get_braille(id))
    }
    pub fn nav_braille() -> Api<String> {
        guard(libmathcat::get_navigation_braille)
    }
    pub fn nav_cmd(c: &str) -> Api<String> {
        let c = c.to_string();
        guard(move || libmathcat::do_navigate_command(c))
    }
    pub fn nav_key(key: usize, shift: bool, ctrl: bool, alt: bool, meta: bool) -> Api<String> {
        guard(move || libmathcat::do_navigate_keypress(key, shift, ctrl, alt, meta))
    }
    pub fn set_nav_node(id: &str, off: usize) -> Api<()> {
        let id = id.to_string();
        guard(move || libmathcat::set_navigation_node(id, off))
    }
    pub fn nav_mathml() -> Api<(String, usize)> {
        guard(libmathcat::get_navigation_mathml)
    }
    pub fn nav_id() -> Api<(String, usize)> {
        guard(libmathcat::get_navigation_mathml_id)
    }
    pub fn braille_pos() -> Api<(usize, usize)> {
        guard(libmathcat::get_braille_position)
    }
    pub fn node_from_braille_pos(p: usize) -> Api<(String, usize)> {
        guard(move || libmathcat::get_navigation_node_from_braille_position(p))
    }
}

// ------------------------------------------------------------------------------------------
// sessions: all MathCAT state is thread-local, so a session is a thread.

/// Run `f` in a fresh OS thread (fresh MathCAT state), rules dir already set.
pub fn in_session<R: Send>(rules_dir: &str, f: impl FnOnce() -> R + Send) -> R {
    std::thread::scope(|s| {
        std::thread::Builder::new()
            .stack_size(SESSION_STACK)
            .spawn_scoped(s, move || {
                TAINTED.with(|t| t.set(false));
                let _ = api::set_rules_dir(rules_dir);
                f()
            })
            .expect("spawn session")
            .join()
            .expect("session thread died outside a guarded call")
    })
}

/// Fresh thread without calling set_rules_dir (for histories that test call order).
pub fn in_raw_session<R: Send>(f: impl FnOnce() -> R + Send) -> R {
    std::thread::scope(|s| {
        std::thread::Builder::new()
            .stack_size(SESSION_STACK)
            .spawn_scoped(s, move || {
                TAINTED.with(|t| t.set(false));
                f()
            })
            .expect("spawn session")
            .join()
            .expect("session thread died outside a guarded call")
    })
}

pub fn tainted() -> bool {
    TAINTED.with(|t| t.get())
}

// ------------------------------------------------------------------------------------------
// verdicts

#[derive(Clone, Debug)]
pub enum Verdict {
    Pass,
    /// MathCAT refused the input (property is conditioned on success) or the case is outside the oracle's domain
    Reject(String),
    Violation { sig: String, detail: String },
}

#[derive(Clone, Debug)]
pub struct Outcome {
    pub verdict: Verdict,
    pub nontrivial: bool,
    pub classes: Vec<String>,
    /// additional violations found in the same case (all are reported / matched against known findings)
    pub more: Vec<(String, String)>,
}

impl Outcome {
    pub fn pass(nontrivial: bool) -> Outcome {
        Outcome { verdict: Verdict::Pass, nontrivial, classes: vec![], more: vec![] }
    }
    pub fn reject(why: &str) -> Outcome {
        Outcome { verdict: Verdict::Reject(why.to_string()), nontrivial: false, classes: vec![], more: vec![] }
    }
    pub fn violation(sig: impl Into<String>, detail: impl Into<String>) -> Outcome {
        Outcome { verdict: Verdict::Violation { sig: sig.into(), detail: detail.into() }, nontrivial: true, classes: vec![], more: vec![] }
    }
    pub fn from_violations(mut v: Vec<(String, String)>, nontrivial: bool) -> Outcome {
        if v.is_empty() {
            return Outcome::pass(nontrivial);
        }
        let (sig, detail) = v.remove(0);
        Outcome { verdict: Verdict::Violation { sig, detail }, nontrivial, classes: vec![], more: v }
    }
    pub fn class(mut self, c: impl Into<String>) -> Outcome {
        self.classes.push(c.into());
        self
    }
    pub fn with_classes(mut self, c: Vec<String>) -> Outcome {
        self.classes.extend(c);
        self
    }
    pub fn violations(&self) -> Vec<(String, String)> {
        let mut v = vec![];
        if let Verdict::Violation { sig, detail } = &self.verdict {
            v.push((sig.clone(), detail.clone()));
        }
        v.extend(self.more.iter().cloned());
        v
    }
}

// ------------------------------------------------------------------------------------------
// known findings

#[derive(Clone, Debug)]
pub struct KnownFinding {
    pub property: String,
    pub signature: String,
    pub status: String,
    pub what: String,
    pub replay: Option<String>,
    pub commit: Option<String>,
}

pub fn load_known_findings() -> Vec<KnownFinding> {
    let path = format!("{}/known_findings.json", verif_dir());
    let Ok(text) = std::fs::read_to_string(&path) else { return vec![] };
    let v: Value = serde_json::from_str(&text).expect("known_findings.json must be valid JSON");
    let mut out = vec![];
    for e in v["findings"].as_array().cloned().unwrap_or_default() {
        out.push(KnownFinding {
            property: e["property"].as_str().unwrap_or("").to_string(),
            signature: e["signature"].as_str().unwrap_or("").to_string(),
            status: e["status"].as_str().unwrap_or("").to_string(),
            what: e["what"].as_str().unwrap_or("").to_string(),
            replay: e["replay"].as_str().map(|s| s.to_string()),
            commit: e["commit"].as_str().map(|s| s.to_string()),
        });
    }
    out
}

/// A known finding matches a violation if property matches and the signature is equal, or the
/// listed signature ends in '*' and is a prefix.
pub fn known_match<'a>(known: &'a [KnownFinding], prop: &str, sig: &str) -> Option<&'a KnownFinding> {
    known.iter().find(|k| {
        k.status == "known"
            && k.property == prop
            && (k.signature == sig || (k.signature.ends_with('*') && sig.starts_with(k.signature.trim_end_matches('*'))))
    })
}

// ------------------------------------------------------------------------------------------
// the property interface

pub trait Property: Sync {
    type Case: Clone + Send + Sync + std::fmt::Debug + 'static;
    fn id(&self) -> &'static str;
    /// one fresh session per case (history properties) or one per chunk of cases
    fn session_per_case(&self) -> bool {
        false
    }
    /// does eval manage its own sessions entirely (then the driver does not create one)
    fn own_sessions(&self) -> bool {
        false
    }
    fn rules_dir(&self) -> String {
        REPO_RULES.to_string()
    }
    fn strategy(&self, tier: Tier) -> BoxedStrategy<Self::Case>;
    fn eval(&self, case: &Self::Case) -> Outcome;
    fn to_json(&self, case: &Self::Case) -> Value;
    fn from_json(&self, v: &Value) -> Option<Self::Case>;
    /// a distinctness key for the case (default: hash of the JSON form)
    fn key(&self, case: &Self::Case) -> u64 {
        hash_str(&self.to_json(case).to_string())
    }
    fn rule(&self) -> String;
    fn assumptions(&self) -> Vec<String> {
        vec![]
    }
    fn max_shrink_iters(&self) -> usize {
        400
    }
    /// (quick, thorough) numbers of generated cases
    fn cases(&self) -> (usize, usize);
    fn level(&self) -> &'static str {
        "exploration"
    }
    /// is a process death (stack overflow, abort) a violation of this property (C08) or a rejected case
    fn abort_is_violation(&self) -> bool {
        false
    }
    /// explicitly enumerated cases (exhaustive sweeps); evaluated through the same oracle as stream "explicit"
    fn explicit_cases(&self, _tier: Tier) -> Vec<Self::Case> {
        vec![]
    }
    /// a known input class that explains why the process died (abort / hang) on this case
    fn death_trigger(&self, _case: &Self::Case) -> Option<String> {
        None
    }
    /// enumerated / special phases run before the generated cases
    fn extra_phases(&self, _cfg: &RunCfg, _known: &[KnownFinding], _stats: &mut Stats) {}
}

#[derive(Default)]
pub struct Stats {
    pub evaluations: usize,
    pub rejected: usize,
    pub nontrivial_keys: HashSet<u64>,
    pub classes: BTreeMap<String, usize>,
    pub reject_reasons: BTreeMap<String, usize>,
    pub known_hits: BTreeMap<String, usize>,
    pub samples: Vec<Value>,
    pub violations: Vec<ViolationRecord>,
    pub unconfirmed: Vec<Value>,
    pub slowest: Vec<(f64, String)>,
    pub extra: BTreeMap<String, Value>,
}

#[derive(Clone, Debug)]
pub struct ViolationRecord {
    pub sig: String,
    pub detail: String,
    pub replay_path: String,
}

impl Stats {
    pub fn merge(&mut self, o: Stats) {
        self.evaluations += o.evaluations;
        self.rejected += o.rejected;
        self.nontrivial_keys.extend(o.nontrivial_keys);
        for (k, v) in o.classes {
            *self.classes.entry(k).or_default() += v;
        }
        for (k, v) in o.reject_reasons {
            *self.reject_reasons.entry(k).or_default() += v;
        }
        for (k, v) in o.known_hits {
            *self.known_hits.entry(k).or_default() += v;
        }
        for s in o.samples {
            if self.samples.len() < 12 {
                self.samples.push(s);
            }
        }
        self.violations.extend(o.violations);
        self.unconfirmed.extend(o.unconfirmed);
        self.slowest.extend(o.slowest);
        self.slowest.sort_by(|a, b| b.0.partial_cmp(&a.0).unwrap());
        self.slowest.truncate(5);
        for (k, v) in o.extra {
            self.extra.insert(k, v);
        }
    }
    pub fn count(&mut self, outcome: &Outcome, key: u64) {
        self.evaluations += 1;
        if let Verdict::Reject(r) = &outcome.verdict {
            self.rejected += 1;
            *self.reject_reasons.entry(r.clone()).or_default() += 1;
        }
        if outcome.nontrivial {
            self.nontrivial_keys.insert(key);
        }
        for c in &outcome.classes {
            *self.classes.entry(c.clone()).or_default() += 1;
        }
    }
}

// ------------------------------------------------------------------------------------------
// watchdog: a hung call is "inconclusive" (exit 2), never a violation

static WATCH: Mutex<Vec<Option<(Instant, String)>>> = Mutex::new(Vec::new());
static WATCH_STARTED: AtomicBool = AtomicBool::new(false);
pub const WATCHDOG_SECS: u64 = 40;

fn watch_set(slot: usize, what: Option<String>) {
    let mut g = WATCH.lock().unwrap();
    if g.len() <= slot {
        g.resize(slot + 1, None);
    }
    g[slot] = what.map(|w| (Instant::now(), w));
}

pub fn start_watchdog() {
    if WATCH_STARTED.swap(true, Ordering::SeqCst) {
        return;
    }
    std::thread::spawn(|| loop {
        std::thread::sleep(Duration::from_secs(2));
        let g = WATCH.lock().unwrap();
        for e in g.iter().flatten() {
            if e.0.elapsed().as_secs() > WATCHDOG_SECS {
                println!("INCONCLUSIVE: watchdog expired after {}s on case: {}", WATCHDOG_SECS, e.1.chars().take(2000).collect::<String>());
                cleanup_scratch();
                std::process::exit(2);
            }
        }
    });
}

pub struct WatchGuard(usize);
impl WatchGuard {
    pub fn new(slot: usize, what: String) -> WatchGuard {
        watch_set(slot, Some(what));
        WatchGuard(slot)
    }
}
impl Drop for WatchGuard {
    fn drop(&mut self) {
        watch_set(self.0, None);
    }
}

// ------------------------------------------------------------------------------------------
// evaluation helpers

/// Evaluate one case the way the property asks for (own session, fresh session, or current thread).
fn eval_isolated<P: Property>(p: &P, case: &P::Case) -> Outcome {
    if p.own_sessions() {
        p.eval(case)
    } else {
        let rules = p.rules_dir();
        in_session(&rules, || p.eval(case))
    }
}

fn shrink<P: Property>(p: &P, tree: &mut Box<dyn ValueTree<Value = P::Case>>, sig: &str) -> (P::Case, String, usize) {
    let mut best = tree.current();
    let mut best_detail = String::new();
    let mut iters = 0usize;
    let max = p.max_shrink_iters();
    if !tree.simplify() {
        return (best, best_detail, 0);
    }
    let started = Instant::now();
    loop {
        iters += 1;
        if iters > max || started.elapsed().as_secs() > 120 {
            break;
        }
        let v = tree.current();
        let out = eval_isolated(p, &v);
        let hit = out.violations().into_iter().find(|(s, _)| s == sig);
        if let Some((_, d)) = hit {
            best = v;
            best_detail = d;
            if !tree.simplify() {
                break;
            }
        } else if !tree.complicate() {
            break;
        }
    }
    (best, best_detail, iters)
}

pub fn sanitize(sig: &str) -> String {
    let s: String = sig.chars().map(|c| if c.is_ascii_alphanumeric() || c == '-' || c == '_' || c == '.' { c } else { '_' }).collect();
    let s: String = s.chars().take(90).collect();
    format!("{}-{:08x}", s, hash_str(sig) as u32)
}

pub fn write_replay(prop: &str, sig: &str, detail: &str, case_json: &Value, found_dir: bool) -> String {
    let dir = if found_dir { format!("{}/replays/{}/found", verif_dir(), prop) } else { format!("{}/replays/{}", verif_dir(), prop) };
    let _ = std::fs::create_dir_all(&dir);
    let path = format!("{}/{}.json", dir, sanitize(sig));
    let v = json!({"property": prop, "signature": sig, "detail": detail, "case": case_json});
    std::fs::write(&path, serde_json::to_string_pretty(&v).unwrap()).expect("write replay");
    path
}

/// What a worker process found in its range of case indices.
fn stats_to_json(s: &Stats) -> Value {
    json!({
        "evaluations": s.evaluations,
        "rejected": s.rejected,
        "nontrivial_keys": s.nontrivial_keys.iter().map(|k| k.to_string()).collect::<Vec<_>>(),
        "classes": s.classes,
        "reject_reasons": s.reject_reasons,
        "known_hits": s.known_hits,
        "samples": s.samples,
        "violations": s.violations.iter().map(|v| json!({"sig": v.sig, "detail": v.detail, "replay": v.replay_path})).collect::<Vec<_>>(),
        "unconfirmed": s.unconfirmed,
        "slowest": s.slowest.iter().map(|(t, c)| json!([t, c])).collect::<Vec<_>>(),
        "extra": s.extra,
    })
}

fn stats_from_json(v: &Value) -> Stats {
    let mut s = Stats::default();
    s.evaluations = v["evaluations"].as_u64().unwrap_or(0) as usize;
    s.rejected = v["rejected"].as_u64().unwrap_or(0) as usize;
    for k in v["nontrivial_keys"].as_array().cloned().unwrap_or_default() {
        if let Some(n) = k.as_str().and_then(|x| x.parse::<u64>().ok()) {
            s.nontrivial_keys.insert(n);
        }
    }
    let map = |v: &Value| -> BTreeMap<String, usize> { v.as_object().map(|o| o.iter().map(|(k, v)| (k.clone(), v.as_u64().unwrap_or(0) as usize)).collect()).unwrap_or_default() };
    s.classes = map(&v["classes"]);
    s.reject_reasons = map(&v["reject_reasons"]);
    s.known_hits = map(&v["known_hits"]);
    s.samples = v["samples"].as_array().cloned().unwrap_or_default();
    for x in v["violations"].as_array().cloned().unwrap_or_default() {
        s.violations.push(ViolationRecord { sig: x["sig"].as_str().unwrap_or("").into(), detail: x["detail"].as_str().unwrap_or("").into(), replay_path: x["replay"].as_str().unwrap_or("").into() });
    }
    s.unconfirmed = v["unconfirmed"].as_array().cloned().unwrap_or_default();
    for x in v["slowest"].as_array().cloned().unwrap_or_default() {
        s.slowest.push((x[0].as_f64().unwrap_or(0.0), x[1].as_str().unwrap_or("").to_string()));
    }
    if let Some(o) = v["extra"].as_object() {
        for (k, v) in o {
            s.extra.insert(k.clone(), v.clone());
        }
    }
    s
}

/// Worker process: evaluates case indices start..end sequentially.  Prints "B <i>" before each case
/// (so the parent knows which case was running if this process dies) and a final "STATS <json>" line.
pub fn worker_main<P: Property>(p: &P, cfg: &RunCfg, stream: &str, start: usize, end: usize, known: &[KnownFinding]) {
    use std::io::Write;
    let out = std::io::stdout();
    let mut local = Stats::default();
    let strategy = p.strategy(cfg.tier);
    let skip: HashSet<String> = std::env::var("MCV_SKIP_SIGS").unwrap_or_default().split('\u{1f}').filter(|s| !s.is_empty()).map(|s| s.to_string()).collect();
    let sample_every = std::env::var("MCV_SAMPLE_EVERY").ok().and_then(|s| s.parse::<usize>().ok()).unwrap_or(1000).max(1);
    let mut reported: BTreeSet<String> = BTreeSet::new();
    let explicit: Option<Vec<P::Case>> = if stream == "explicit" { Some(p.explicit_cases(cfg.tier)) } else { None };
    let per_session = if p.session_per_case() || p.own_sessions() { 1 } else { 48 };
    let mut i = start;
    while i < end {
        let chunk_end = (i + per_session).min(end);
        // generate (or take from the enumerated list)
        let mut trees: Vec<Option<Box<dyn ValueTree<Value = P::Case>>>> = vec![];
        let mut cases: Vec<(usize, P::Case)> = vec![];
        for k in i..chunk_end {
            if let Some(list) = &explicit {
                if let Some(c) = list.get(k) {
                    cases.push((k, c.clone()));
                    trees.push(None);
                }
                continue;
            }
            let mut runner = runner_for(cfg.seed, p.id(), stream, k as u64);
            if let Ok(t) = strategy.new_tree(&mut runner) {
                cases.push((k, t.current()));
                trees.push(Some(Box::new(t)));
            }
        }
        let mut outcomes: Vec<Option<Outcome>> = vec![None; cases.len()];
        let announce = |k: usize| {
            let mut o = out.lock();
            let _ = writeln!(o, "B {}", k);
            let _ = o.flush();
        };
        if p.own_sessions() {
            for (k, (idx, c)) in cases.iter().enumerate() {
                announce(*idx);
                let t0 = Instant::now();
                outcomes[k] = Some(p.eval(c));
                let dt = t0.elapsed().as_secs_f64();
                if dt > 1.0 {
                    local.slowest.push((dt, p.to_json(c).to_string().chars().take(300).collect()));
                }
            }
        } else {
            let mut k = 0usize;
            while k < cases.len() {
                let rules = p.rules_dir();
                let (outs, consumed) = in_session(&rules, || {
                    let mut outs = vec![];
                    let mut kk = k;
                    while kk < cases.len() {
                        announce(cases[kk].0);
                        let t0 = Instant::now();
                        let o = p.eval(&cases[kk].1);
                        outs.push((o, t0.elapsed().as_secs_f64()));
                        kk += 1;
                        if tainted() {
                            break;
                        }
                    }
                    (outs, kk - k)
                });
                for (j, (o, dt)) in outs.into_iter().enumerate() {
                    if dt > 1.0 {
                        local.slowest.push((dt, p.to_json(&cases[k + j].1).to_string().chars().take(300).collect()));
                    }
                    outcomes[k + j] = Some(o);
                }
                k += consumed;
            }
        }
        // judge
        for (k, (idx, c)) in cases.iter().enumerate() {
            let out_k = outcomes[k].take().unwrap();
            local.count(&out_k, p.key(c));
            if idx % sample_every == 0 && local.samples.len() < 2 && !matches!(out_k.verdict, Verdict::Reject(_)) {
                local.samples.push(p.to_json(c));
            }
            for (sig, detail) in out_k.violations() {
                if let Some(kf) = known_match(known, p.id(), &sig) {
                    let n = local.known_hits.entry(kf.signature.clone()).or_default();
                    *n += 1;
                    // maintenance aid: VERIF_SAVE_KNOWN=1 keeps one (unshrunk) example per known signature under found/
                    if *n == 1 && std::env::var("VERIF_SAVE_KNOWN").is_ok() {
                        write_replay(p.id(), &format!("knownhit-{}", kf.signature), &detail, &p.to_json(c), true);
                    }
                    continue;
                }
                if reported.contains(&sig) || skip.contains(&sig) || reported.len() >= 3 {
                    *local.classes.entry(format!("repeat-of-reported-violation:{}", sig)).or_default() += 1;
                    continue;
                }
                reported.insert(sig.clone());
                announce(*idx);
                let confirmed = if p.session_per_case() || p.own_sessions() { true } else { eval_isolated(p, c).violations().iter().any(|(s, _)| s == &sig) };
                if !confirmed {
                    local.unconfirmed.push(json!({"signature": sig, "detail": detail, "case": p.to_json(c), "note": "did not reproduce alone in a fresh session: history dependent, not reported under this property"}));
                    continue;
                }
                // persist the unshrunk case first (the shrinker might crash the process)
                let path = write_replay(p.id(), &sig, &detail, &p.to_json(c), true);
                let (best, best_detail, _iters) = match trees[k].as_mut() {
                    Some(t) => shrink(p, t, &sig),
                    None => (c.clone(), String::new(), 0),
                };
                let d = if best_detail.is_empty() { detail.clone() } else { best_detail };
                let path2 = write_replay(p.id(), &sig, &d, &p.to_json(&best), true);
                debug_assert_eq!(path, path2);
                local.violations.push(ViolationRecord { sig: sig.clone(), detail: d, replay_path: path2 });
            }
        }
        i = chunk_end;
    }
    let mut o = out.lock();
    let _ = writeln!(o, "STATS {}", stats_to_json(&local));
    let _ = o.flush();
}

enum ChildEnd {
    Done(Stats),
    Died { at: Option<usize>, how: String },
}

fn run_child(prop: &str, cfg: &RunCfg, stream: &str, start: usize, end: usize, skip: &str, sample_every: usize) -> ChildEnd {
    use std::io::{BufRead, BufReader, Read};
    use std::process::{Command, Stdio};
    let exe = std::env::current_exe().expect("current_exe");
    let mut child = Command::new(exe)
        .args(["worker", prop, cfg.tier.name(), stream, &start.to_string(), &end.to_string()])
        .env("VERIF_SEED", (cfg.seed as i64).to_string())
        .env("MCV_SKIP_SIGS", skip)
        .env("MCV_SAMPLE_EVERY", sample_every.to_string())
        .stdin(Stdio::null())
        .stdout(Stdio::piped())
        .stderr(Stdio::piped())
        .spawn()
        .expect("spawn worker");
    let pid = child.id();
    let stdout = child.stdout.take().unwrap();
    let mut stderr = child.stderr.take().unwrap();
    // stderr: keep only the tail (MathCAT is chatty)
    let err_thread = std::thread::spawn(move || {
        let mut buf = vec![0u8; 8192];
        let mut tail: Vec<u8> = vec![];
        loop {
            match stderr.read(&mut buf) {
                Ok(0) | Err(_) => break,
                Ok(n) => {
                    tail.extend_from_slice(&buf[..n]);
                    if tail.len() > 4000 {
                        let cut = tail.len() - 2000;
                        tail.drain(..cut);
                    }
                }
            }
        }
        String::from_utf8_lossy(&tail).to_string()
    });
    // watchdog via a shared timestamp
    let last = std::sync::Arc::new(Mutex::new(Instant::now()));
    let done = std::sync::Arc::new(AtomicBool::new(false));
    let timed_out = std::sync::Arc::new(AtomicBool::new(false));
    {
        let (last, done, timed_out) = (last.clone(), done.clone(), timed_out.clone());
        std::thread::spawn(move || loop {
            std::thread::sleep(Duration::from_millis(500));
            if done.load(Ordering::SeqCst) {
                break;
            }
            if last.lock().unwrap().elapsed().as_secs() > WATCHDOG_SECS {
                timed_out.store(true, Ordering::SeqCst);
                unsafe_kill(pid);
                break;
            }
        });
    }
    let mut current: Option<usize> = None;
    let mut stats: Option<Stats> = None;
    for line in BufReader::new(stdout).lines() {
        let Ok(line) = line else { break };
        *last.lock().unwrap() = Instant::now();
        if let Some(r) = line.strip_prefix("B ") {
            current = r.trim().parse().ok();
        } else if let Some(r) = line.strip_prefix("STATS ") {
            if let Ok(v) = serde_json::from_str::<Value>(r) {
                stats = Some(stats_from_json(&v));
            }
        }
    }
    let status = child.wait();
    done.store(true, Ordering::SeqCst);
    let err_tail = err_thread.join().unwrap_or_default();
    let _ = std::fs::remove_dir_all(format!("{}/harness/target/scratch/{}", verif_dir(), pid));
    if let (Some(s), Ok(st)) = (stats, &status) {
        if st.success() {
            return ChildEnd::Done(s);
        }
    }
    let how = if timed_out.load(Ordering::SeqCst) {
        format!("hang: no progress for {}s", WATCHDOG_SECS)
    } else if err_tail.contains("overflowed its stack") {
        "abort: stack overflow".to_string()
    } else {
        let tail: String = err_tail.lines().rev().take(6).collect::<Vec<_>>().into_iter().rev().collect::<Vec<_>>().join(" | ");
        format!("abort: {:?} {}", status, tail.chars().take(300).collect::<String>())
    };
    ChildEnd::Died { at: current, how }
}

fn unsafe_kill(pid: u32) {
    let _ = std::process::Command::new("kill").args(["-9", &pid.to_string()]).status();
}

/// Observation of a process death (abort / hang) while evaluating a case.
pub fn abort_signature(how: &str) -> String {
    if how.starts_with("hang") {
        "hang".to_string()
    } else if how.contains("stack overflow") {
        "abort:stack-overflow".to_string()
    } else {
        "abort:other".to_string()
    }
}

/// The generated-case driver: ranges of case indices are evaluated in worker processes, so that an
/// abort (stack overflow) or hang costs one case, not the run.
pub fn run_generated<P: Property>(p: &P, cfg: &RunCfg, n_cases: usize, stream: &str, known: &[KnownFinding]) -> Stats {
    let range = if p.session_per_case() || p.own_sessions() { 64 } else { 384 };
    let range = range.min((n_cases / cfg.workers).max(8));
    let mut jobs: Vec<(usize, usize)> = vec![];
    let mut s = 0;
    while s < n_cases {
        jobs.push((s, (s + range).min(n_cases)));
        s += range;
    }
    jobs.reverse();
    let queue = Mutex::new(jobs);
    let total = Mutex::new(Stats::default());
    let reported: Mutex<BTreeSet<String>> = Mutex::new(BTreeSet::new());
    let hangs = AtomicUsize::new(0);
    let max_viol: usize = std::env::var("VERIF_MAX_VIOL").ok().and_then(|s| s.parse().ok()).unwrap_or(8);
    let sample_every = (n_cases / 8).max(1);
    std::thread::scope(|scope| {
        for _w in 0..cfg.workers {
            let (queue, total, reported, hangs) = (&queue, &total, &reported, &hangs);
            scope.spawn(move || {
                let strategy = p.strategy(cfg.tier);
                loop {
                    let job = queue.lock().unwrap().pop();
                    let Some((start, end)) = job else { break };
                    let skip: String = {
                        let r = reported.lock().unwrap();
                        if r.len() >= max_viol {
                            break;
                        }
                        r.iter().cloned().collect::<Vec<_>>().join("\u{1f}")
                    };
                    match run_child(p.id(), cfg, stream, start, end, &skip, sample_every) {
                        ChildEnd::Done(mut st) => {
                            let mut r = reported.lock().unwrap();
                            st.violations.retain(|v| r.insert(v.sig.clone()));
                            total.lock().unwrap().merge(st);
                        }
                        ChildEnd::Died { at, how } => {
                            let at = at.unwrap_or(start).clamp(start, end - 1);
                            // the case that was running
                            let mut runner = runner_for(cfg.seed, p.id(), stream, at as u64);
                            let case = if stream == "explicit" { p.explicit_cases(cfg.tier).get(at).cloned() } else { strategy.new_tree(&mut runner).ok().map(|t| t.current()) };
                            let case_json = case.as_ref().map(|c| p.to_json(c)).unwrap_or(Value::Null);
                            let mut sig = abort_signature(&how);
                            let trigger = case.as_ref().and_then(|c| p.death_trigger(c));
                            let is_hang = sig == "hang";
                            if let Some(t) = &trigger {
                                sig = format!("death:{}", t);
                            }
                            let mut t = total.lock().unwrap();
                            t.evaluations += 1;
                            if is_hang {
                                hangs.fetch_add(1, Ordering::SeqCst);
                            }
                            if p.abort_is_violation() && (!is_hang || trigger.is_some()) {
                                if known_match(known, p.id(), &sig).is_some() {
                                    *t.known_hits.entry(known_match(known, p.id(), &sig).unwrap().signature.clone()).or_default() += 1;
                                } else if reported.lock().unwrap().insert(sig.clone()) {
                                    let path = write_replay(p.id(), &sig, &how, &case_json, true);
                                    t.violations.push(ViolationRecord { sig, detail: how.clone(), replay_path: path });
                                }
                            } else {
                                t.rejected += 1;
                                *t.reject_reasons.entry(format!("process died ({}) -- belongs to C08", sig)).or_default() += 1;
                                let mut lst = t.extra.remove("process_deaths").and_then(|v| v.as_array().cloned()).unwrap_or_default();
                                if lst.len() < 10 {
                                    lst.push(json!({"how": how, "case": case_json}));
                                }
                                t.extra.insert("process_deaths".into(), Value::Array(lst));
                            }
                            drop(t);
                            let mut q = queue.lock().unwrap();
                            if at > start {
                                q.push((start, at));
                            }
                            if at + 1 < end {
                                q.push((at + 1, end));
                            }
                        }
                    }
                }
            });
        }
    });
    let mut t = total.into_inner().unwrap();
    let h = hangs.load(Ordering::SeqCst);
    if h > 0 {
        t.extra.insert("hangs".into(), json!(h));
    }
    t
}

/// Evaluate one replay file in a child process (so an abort is an observation, not the end of the run).
fn replay_in_child<P: Property>(p: &P, file: &str) -> Result<Vec<(String, String)>, String> {
    use std::process::{Command, Stdio};
    let exe = std::env::current_exe().expect("current_exe");
    let out = Command::new("timeout").arg("-s").arg("KILL").arg((WATCHDOG_SECS / 2).to_string()).arg(exe).args(["replay-json", p.id(), file]).stdin(Stdio::null()).stderr(Stdio::piped()).stdout(Stdio::piped()).output().map_err(|e| e.to_string())?;
    let stdout = String::from_utf8_lossy(&out.stdout).to_string();
    for line in stdout.lines() {
        if let Some(r) = line.strip_prefix("OUTCOME ") {
            let v: Value = serde_json::from_str(r).map_err(|e| e.to_string())?;
            let mut viols = vec![];
            for x in v["violations"].as_array().cloned().unwrap_or_default() {
                viols.push((x[0].as_str().unwrap_or("").to_string(), x[1].as_str().unwrap_or("").to_string()));
            }
            return Ok(viols);
        }
    }
    let err = String::from_utf8_lossy(&out.stderr).to_string();
    if err.contains("overflowed its stack") {
        Err("abort: stack overflow".into())
    } else if out.status.code() == Some(137) || (out.status.code().is_none() && !err.contains("panicked")) {
        Err("hang: killed by the replay timeout".into())
    } else {
        Err(format!("abort: {:?}", out.status))
    }
}

pub fn replay_json_main<P: Property>(p: &P, file: &str) -> i32 {
    let text = std::fs::read_to_string(file).unwrap_or_default();
    let Ok(v) = serde_json::from_str::<Value>(&text) else { return 3 };
    let Some(case) = p.from_json(&v["case"]) else {
        eprintln!("cannot decode case in {}", file);
        return 3;
    };
    let out = eval_isolated(p, &case);
    println!("OUTCOME {}", json!({"violations": out.violations().iter().map(|(s, d)| json!([s, d])).collect::<Vec<_>>(), "nontrivial": out.nontrivial, "key": p.key(&case).to_string()}));
    0
}

/// Replay every file in replays/<ID>/*.json (not the `found/` subdirectory).
/// Returns a list of (file, signature, reproduced?).
pub fn run_replays<P: Property>(p: &P, known: &[KnownFinding], stats: &mut Stats) -> Vec<(String, String, bool)> {
    let dir = format!("{}/replays/{}", verif_dir(), p.id());
    let mut results = vec![];
    let Ok(rd) = std::fs::read_dir(&dir) else { return results };
    let mut files: Vec<_> = rd.filter_map(|e| e.ok()).map(|e| e.path()).filter(|p| p.extension().map(|e| e == "json").unwrap_or(false)).collect();
    files.sort();
    let res: Mutex<Vec<(String, String, Result<Vec<(String, String)>, String>)>> = Mutex::new(vec![]);
    let next = AtomicUsize::new(0);
    std::thread::scope(|scope| {
        for _ in 0..8 {
            scope.spawn(|| loop {
                let i = next.fetch_add(1, Ordering::SeqCst);
                if i >= files.len() {
                    break;
                }
                let f = files[i].display().to_string();
                let text = std::fs::read_to_string(&f).unwrap_or_default();
                let want = serde_json::from_str::<Value>(&text).ok().and_then(|v| v["signature"].as_str().map(|s| s.to_string())).unwrap_or_default();
                let r = replay_in_child(p, &f);
                res.lock().unwrap().push((f, want, r));
            });
        }
    });
    let mut res = res.into_inner().unwrap();
    res.sort_by(|a, b| a.0.cmp(&b.0));
    for (f, want_sig, r) in res {
        stats.evaluations += 1;
        stats.nontrivial_keys.insert(hash_str(&f));
        let viols = match r {
            Ok(v) => v,
            Err(how) => {
                if p.abort_is_violation() {
                    let text = std::fs::read_to_string(&f).unwrap_or_default();
                    let case = serde_json::from_str::<Value>(&text).ok().and_then(|v| p.from_json(&v["case"]));
                    let sig = match case.as_ref().and_then(|c| p.death_trigger(c)) {
                        Some(t) => format!("death:{}", t),
                        None => abort_signature(&how),
                    };
                    vec![(sig, how)]
                } else {
                    vec![]
                }
            }
        };
        let mut reproduced = false;
        for (sig, detail) in viols {
            if sig == want_sig {
                reproduced = true;
            }
            if let Some(kf) = known_match(known, p.id(), &sig) {
                *stats.known_hits.entry(kf.signature.clone()).or_default() += 1;
            } else if !stats.violations.iter().any(|r| r.sig == sig) {
                stats.violations.push(ViolationRecord { sig, detail, replay_path: f.clone() });
            }
        }
        results.push((f, want_sig, reproduced));
    }
    results
}

// ------------------------------------------------------------------------------------------
// evidence + final report

pub fn finish<P: Property>(p: &P, cfg: &RunCfg, stats: &Stats, known: &[KnownFinding], started: Instant, level: &str) -> i32 {
    let mut samples = stats.samples.clone();
    if samples.is_empty() {
        samples.push(json!("no sample collected"));
    }
    let mut coverage = json!({
        "evaluations": stats.evaluations,
        "distinct_nontrivial": stats.nontrivial_keys.len(),
        "rule": p.rule(),
        "samples": samples,
        "rejected": stats.rejected,
        "reject_reasons": stats.reject_reasons,
        "class_histogram": stats.classes,
        "known_hits": stats.known_hits,
        "unconfirmed_history_dependent": stats.unconfirmed,
        "slowest": stats.slowest.iter().map(|(t, c)| json!({"secs": t, "case": c})).collect::<Vec<_>>(),
    });
    for (k, v) in &stats.extra {
        coverage[k] = v.clone();
    }
    let mut assumptions = vec![
        "MathCAT compiled from /repo working tree with --cfg mathcat_verif, opt-level 2, debug-assertions and overflow-checks ON (as in the repository's test profile): an arithmetic overflow or debug_assert is a panic".to_string(),
        "each session is an OS thread with an 8 MiB stack; HOME/XDG_CONFIG_HOME pinned to an empty directory; rules read from /repo/Rules at run time".to_string(),
        "property-based exploration: absence of violations is relative to the generator bounds stated in rule".to_string(),
    ];
    assumptions.extend(p.assumptions());
    let ev = json!({
        "property_id": p.id(),
        "tier": cfg.tier.name(),
        "seed": cfg.seed as i64,
        "level": level,
        "coverage": coverage,
        "assumptions": assumptions,
        "wall_s": started.elapsed().as_secs_f64(),
        "violations": stats.violations.len(),
        "violation_list": stats.violations.iter().map(|v| json!({"signature": v.sig, "detail": v.detail.chars().take(1500).collect::<String>(), "replay": v.replay_path})).collect::<Vec<_>>(),
    });
    let _ = std::fs::create_dir_all(format!("{}/evidence", verif_dir()));
    std::fs::write(format!("{}/evidence/{}.json", verif_dir(), p.id()), serde_json::to_string_pretty(&ev).unwrap()).expect("write evidence");

    // KNOWN-FINDING lines: one per listed known entry of this property (listed => printed)
    for k in known.iter().filter(|k| k.property == p.id() && k.status == "known") {
        let hits = stats.known_hits.get(&k.signature).copied().unwrap_or(0);
        println!("KNOWN-FINDING: property={} {} [signature={} hits_this_run={}]", p.id(), k.what, k.signature, hits);
    }
    let mut printed: BTreeSet<String> = BTreeSet::new();
    for v in &stats.violations {
        if !printed.insert(v.sig.clone()) {
            continue;
        }
        println!("VIOLATION property={} replay={}", p.id(), v.replay_path);
        println!("  signature: {}", v.sig);
        println!("  detail: {}", v.detail.chars().take(1200).collect::<String>().replace('\n', "\n    "));
    }
    println!(
        "{} {} seed={} evaluations={} distinct_nontrivial={} rejected={} known_hits={} violations={} wall={:.1}s",
        p.id(),
        cfg.tier.name(),
        cfg.seed,
        stats.evaluations,
        stats.nontrivial_keys.len(),
        stats.rejected,
        stats.known_hits.values().sum::<usize>(),
        stats.violations.len(),
        started.elapsed().as_secs_f64()
    );
    if stats.violations.is_empty() {
        0
    } else {
        1
    }
}
