//! The visible character sequence of a MathML tree and the character normalisation N
//! (DESIGN.md C01).  N is a function of characters only.
#![allow(dead_code)]

use crate::gen::MNode;
use std::collections::HashMap;
use std::sync::OnceLock;

pub fn data_path(name: &str) -> String {
    format!("{}/harness/data/{}", crate::engine::verif_dir(), name)
}

pub fn styled_to_base() -> &'static HashMap<char, char> {
    static M: OnceLock<HashMap<char, char>> = OnceLock::new();
    M.get_or_init(|| {
        let text = std::fs::read_to_string(data_path("mathalnum_nfkc.json")).expect("mathalnum_nfkc.json");
        let v: serde_json::Value = serde_json::from_str(&text).unwrap();
        let mut m = HashMap::new();
        for (k, val) in v["map"].as_object().unwrap() {
            let kc = k.chars().next().unwrap();
            let vc = val.as_str().unwrap().chars().next().unwrap();
            m.insert(kc, vc);
        }
        m
    })
}

pub fn is_invisible_op(c: char) -> bool {
    ('\u{2061}'..='\u{2064}').contains(&c)
}

/// N: character normalisation applied to both sides.
pub fn norm_chars(s: &str) -> String {
    let styled = styled_to_base();
    let mut o = String::with_capacity(s.len());
    for c in s.chars() {
        if c.is_whitespace() || is_invisible_op(c) || c == '\u{200b}' {
            continue;
        }
        let c = *styled.get(&c).unwrap_or(&c);
        // greek symbol variants that NFKC folds are left alone; only styled letters are folded
        match c {
            // dash / bar / underscore family (canonicalize_mo_text, minus sign)
            '\u{2212}' | '_' | '\u{02C9}' | '\u{0304}' | '\u{0305}' | '\u{0332}' | '\u{2010}' | '\u{2011}' | '\u{2012}' | '\u{2013}' | '\u{2014}' | '\u{2015}' | '\u{203e}' | '\u{00AF}' => o.push('-'),
            // primes
            '\'' | '′' => o.push('′'),
            '″' => o.push_str("′′"),
            '‴' => o.push_str("′′′"),
            '⁗' => o.push_str("′′′′"),
            '…' => o.push_str("..."),
            '‖' | 'ǁ' => o.push_str("||"),
            '∷' => o.push_str("::"),
            '∶' => o.push(':'),
            '⟨' => o.push('<'),
            '⟩' => o.push('>'),
            // tilde family
            '\u{02DC}' | '\u{223C}' => o.push('~'),
            // circumflex family
            '\u{02C6}' | '\u{0302}' => o.push('^'),
            // dot above
            '\u{0307}' => o.push('\u{02D9}'),
            // diaeresis
            '\u{0308}' => o.push('¨'),
            // degree / ring family
            '\u{00BA}' | '\u{2092}' | '\u{20D8}' | '\u{2218}' => o.push('\u{00B0}'),
            '\u{02BC}' => o.push('`'),
            // Greek symbol variants are folded onto the letter: which styled character a variant maps
            // to is C18's business, C01 only asks that the letter is still there
            'ϵ' => o.push('ε'),
            'ϑ' => o.push('θ'),
            'ϰ' => o.push('κ'),
            'ϕ' => o.push('φ'),
            'ϱ' => o.push('ρ'),
            'ϖ' => o.push('π'),
            'ϴ' => o.push('Θ'),
            _ => o.push(c),
        }
    }
    o
}

fn is_multi_hyphen(t: &str) -> bool {
    let t = t.trim();
    let n = t.chars().count();
    (2..=4).contains(&n) && t.chars().all(|c| c == '-')
}

const NON_RENDERED: &[&str] = &["mphantom", "annotation", "annotation-xml", "mspace", "malignmark", "maligngroup", "none", "mprescripts"];

/// flattened text of a token the way the MathML says it renders: text plus mglyph/@alt
fn token_text(n: &MNode) -> String {
    let mut s = String::new();
    if let Some(t) = &n.text {
        s.push_str(t);
    }
    for k in &n.kids {
        if k.tag == "mglyph" {
            s.push_str(k.get_attr("alt").unwrap_or(""));
        } else {
            s.push_str(&token_text(k));
        }
    }
    s
}

/// mfenced per the MathML 3 rule: open (default "("), separators (default ","; white space
/// ignored; last one repeats; empty => none), close (default ")").
fn mfenced_parts(n: &MNode) -> (String, Vec<String>, String) {
    let open = n.get_attr("open").unwrap_or("(").to_string();
    let close = n.get_attr("close").unwrap_or(")").to_string();
    let seps: Vec<char> = n.get_attr("separators").unwrap_or(",").chars().filter(|c| !c.is_whitespace()).collect();
    let nk = n.kids.len();
    let mut out = vec![];
    for i in 0..nk.saturating_sub(1) {
        if seps.is_empty() {
            out.push(String::new());
        } else {
            // too few separators: MathML repeats the last one, MathCAT's own test suite pins ',' --
            // the generators never produce this case (DESIGN.md C01); replays follow the pinned behaviour
            out.push(seps.get(i).copied().unwrap_or(',').to_string());
        }
    }
    (open, out, close)
}

#[derive(Clone, Copy, PartialEq, Eq)]
pub enum Side {
    Input,
    Output,
}

/// pieces of visible text in reading order (before N)
pub fn visible_pieces(n: &MNode, side: Side, out: &mut Vec<String>) {
    let tag = n.tag.as_str();
    if tag == "#text" {
        out.push(n.txt().to_string());
        return;
    }
    if NON_RENDERED.contains(&tag) {
        return;
    }
    if tag == "mglyph" {
        out.push(n.get_attr("alt").unwrap_or("").to_string());
        return;
    }
    if n.is_token() || crate::gen::TOKENS.contains(&tag) {
        let t = token_text(n);
        // canonicalize_dash: only mi and mtext turn "--" / "---" / "----" into one dash character
        if (tag == "mi" || tag == "mtext") && is_multi_hyphen(&t) {
            out.push("-".to_string());
        } else {
            out.push(t);
        }
        return;
    }
    match tag {
        "semantics" => {
            // presentation child: first child that is not an annotation (MathML: first child)
            if let Some(k) = n.kids.iter().find(|k| k.tag != "annotation" && k.tag != "annotation-xml") {
                visible_pieces(k, side, out);
            }
        }
        "mfenced" => {
            let (open, seps, close) = mfenced_parts(n);
            out.push(open);
            for (i, k) in n.kids.iter().enumerate() {
                if i > 0 {
                    out.push(seps[i - 1].clone());
                }
                visible_pieces(k, side, out);
            }
            out.push(close);
        }
        "mmultiscripts" => {
            // reading order: prescripts, base, postscripts
            let pos = n.kids.iter().position(|k| k.tag == "mprescripts");
            let (post, pre): (&[MNode], &[MNode]) = match pos {
                Some(p) => (&n.kids[1.min(p)..p], &n.kids[p + 1..]),
                None => (&n.kids[1.min(n.kids.len())..], &[]),
            };
            for k in pre {
                visible_pieces(k, side, out);
            }
            if let Some(b) = n.kids.first() {
                visible_pieces(b, side, out);
            }
            for k in post {
                visible_pieces(k, side, out);
            }
        }
        _ => {
            for k in &n.kids {
                visible_pieces(k, side, out);
            }
        }
    }
}

pub fn visible_norm(n: &MNode, side: Side) -> String {
    let mut p = vec![];
    visible_pieces(n, side, &mut p);
    let mut s = String::new();
    for piece in p {
        s.push_str(&norm_chars(&piece));
    }
    s
}

/// does the tree contain a letter or digit in a rendered token (the conservative "visible content")
pub fn has_alnum_content(n: &MNode) -> bool {
    visible_norm(n, Side::Input).chars().any(|c| c.is_alphanumeric())
}
