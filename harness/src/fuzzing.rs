//! Glue between libFuzzer targets (/verif/fuzz) and the property definitions.
//!
//! A target decodes the fuzzer's bytes into a `Case` of one property (structured decoding with a share of
//! "the rest of the bytes, verbatim" so that the XML parser and the preprocessing regexes see malformed text
//! too), evaluates it with the *same* `Property::eval` the proptest driver uses (the semantic oracle is inside
//! the target, not only crash detection), tolerates the violations listed in known_findings.json (so that a
//! campaign does not rediscover one finding forever) and reports anything else by writing a replay file
//! under replays/<ID>/found/ and panicking (libFuzzer then saves the input as a crash artifact).
use crate::engine::*;
use crate::gen::{MNode, TOKENS};
use crate::hist::{IdRef, Op};
use std::sync::mpsc::{channel, Receiver, Sender};
use std::sync::{Mutex, OnceLock};

/// a tiny byte reader (the decoders must be total: any byte string decodes to some case)
pub struct Bytes<'a> {
    pub data: &'a [u8],
    pub pos: usize,
}

impl<'a> Bytes<'a> {
    pub fn new(data: &'a [u8]) -> Self {
        Bytes { data, pos: 0 }
    }
    pub fn u8(&mut self) -> u8 {
        let b = self.data.get(self.pos).copied().unwrap_or(0);
        self.pos += 1;
        b
    }
    pub fn below(&mut self, n: usize) -> usize {
        if n <= 1 {
            0
        } else {
            self.u8() as usize % n
        }
    }
    pub fn left(&self) -> usize {
        self.data.len().saturating_sub(self.pos)
    }
    pub fn rest_str(&mut self) -> String {
        let s = String::from_utf8_lossy(self.data.get(self.pos..).unwrap_or(&[])).to_string();
        self.pos = self.data.len();
        s
    }
    /// a short string: length byte, then that many bytes (lossy UTF-8)
    pub fn short_str(&mut self, max: usize) -> String {
        let n = self.below(max + 1).min(self.left());
        let s = String::from_utf8_lossy(&self.data[self.pos.min(self.data.len())..(self.pos + n).min(self.data.len())]).to_string();
        self.pos += n;
        s
    }
}

const ELEMENTS: &[&str] = &["mrow", "mfrac", "msqrt", "mroot", "msub", "msup", "msubsup", "munder", "mover", "munderover", "mtable", "mtr", "mtd", "mfenced", "mstyle", "mpadded", "mphantom", "menclose", "mmultiscripts", "merror", "semantics", "mspace", "none", "mprescripts", "mlabeledtr"];
const TEXTS: &[&str] = &["x", "y", "a", "n", "1", "2", "10", "3.5", "1,000", "+", "-", "−", "=", "(", ")", "[", "]", "|", ",", ".", "sin", "log", "lim", "′", "∑", "∫", "→", "π", "α", "\u{2061}", "\u{2062}", "\u{a0}", " ", "", "Na", "Cl", "H", "arc", "dx", "&", "<", "IV", "--", "°", "%", "!", "∞", "𝐴", "ℝ"];
const ATTRS: &[(&str, &[&str])] = &[
    ("mathvariant", &["bold", "italic", "double-struck", "normal", "script", "fraktur", "nonsense"]),
    ("intent", &["f($a)", ":prefix", "$x", "binomial($n,$k)", "_", "plus(", ":unit"]),
    ("arg", &["a", "x", "n", "k"]),
    ("id", &["i1", "i2", "i1", "a b"]),
    ("notation", &["box", "updiagonalstrike", "radical", "longdiv", "circle"]),
    ("separators", &["", ",", ";,", " "]),
    ("open", &["(", "[", "", "|"]),
    ("close", &[")", "]", "", "|"]),
    ("width", &["1em", "+1em", "0", "-0.2em"]),
    ("data-chem-formula", &["2"]),
    ("class", &["MJX-TeXAtom-ORD", "data-mjx-texclass"]),
    ("linethickness", &["0", "medium"]),
    ("xmlns", &["http://www.w3.org/1998/Math/MathML"]),
];

/// any bytes -> a tree of bounded size and depth (arity is *not* enforced: invalid shapes are part of the domain)
pub fn decode_tree(b: &mut Bytes, depth: usize, budget: &mut usize) -> MNode {
    *budget = budget.saturating_sub(1);
    let leafy = depth >= 10 || *budget == 0 || b.left() == 0 || b.below(5) < 2;
    let mut n = if leafy {
        let tag = TOKENS[b.below(TOKENS.len())];
        let text = if b.below(8) == 0 { b.short_str(6) } else { TEXTS[b.below(TEXTS.len())].to_string() };
        MNode::leaf(tag, &text)
    } else {
        let tag = ELEMENTS[b.below(ELEMENTS.len())];
        let k = b.below(5);
        let mut kids = vec![];
        for _ in 0..k {
            if *budget == 0 {
                break;
            }
            kids.push(decode_tree(b, depth + 1, budget));
        }
        MNode::el(tag, kids)
    };
    if b.below(6) == 0 {
        let (name, vals) = ATTRS[b.below(ATTRS.len())];
        n.attrs.push((name.to_string(), vals[b.below(vals.len())].to_string()));
    }
    n
}

/// rough nesting depth of a piece of markup (open tags minus close tags, maximum over the text)
fn nesting(s: &str) -> usize {
    let b = s.as_bytes();
    let (mut d, mut max) = (0isize, 0isize);
    for i in 0..b.len() {
        if b[i] == b'<' {
            if b.get(i + 1) == Some(&b'/') {
                d -= 1;
            } else {
                d += 1;
                max = max.max(d);
            }
        } else if b[i] == b'/' && b.get(i + 1) == Some(&b'>') {
            d -= 1;
        }
    }
    max.max(0) as usize
}

/// any bytes -> a MathML *string*: structured tree, raw text, or a structured tree with a raw splice.
/// Deep nesting is the business of C08's depth class (it overflows the stack: a listed finding that would end every
/// campaign): such inputs are replaced by an empty expression here.
pub fn decode_mathml(data: &[u8]) -> String {
    let s = decode_mathml_unbounded(data);
    if nesting(&s) > 100 {
        "<math></math>".to_string()
    } else {
        s
    }
}

fn decode_mathml_unbounded(data: &[u8]) -> String {
    let mut b = Bytes::new(data);
    match b.below(8) {
        // raw: the XML parser and the preprocessing regexes see arbitrary text
        0 => b.rest_str(),
        1 => format!("<math>{}</math>", b.rest_str()),
        m => {
            let mut budget = 60usize;
            let k = 1 + b.below(3);
            let kids: Vec<MNode> = (0..k).map(|_| decode_tree(&mut b, 0, &mut budget)).collect();
            let xml = MNode::math(kids).to_xml();
            if m == 2 && b.left() > 0 {
                // splice raw bytes somewhere into well-formed text
                let raw = b.rest_str();
                let at = xml.char_indices().map(|(i, _)| i).nth(raw.len() % xml.chars().count().max(1)).unwrap_or(0);
                format!("{}{}{}", &xml[..at], raw, &xml[at..])
            } else {
                xml
            }
        }
    }
}

pub fn c02_case(data: &[u8]) -> crate::props::c02::Case {
    crate::props::c02::Case { tree: None, raw: Some(decode_mathml(data)), nav: vec!["ZoomIn".into(), "MoveNext".into()] }
}

/// C08 under the fuzzer: the no-panic clause for one expression under every getter, navigation and cursor routing,
/// evaluated in the shared session (a session of its own per input costs a reload of all rule files).  The recovery
/// clause and call orders are the business of the proptest histories of ./check C08.
pub struct C08Expr;

impl Property for C08Expr {
    type Case = String;
    fn id(&self) -> &'static str {
        "C08"
    }
    fn strategy(&self, _tier: Tier) -> proptest::strategy::BoxedStrategy<String> {
        use proptest::strategy::Strategy;
        proptest::strategy::Just(String::new()).boxed()
    }
    fn eval(&self, xml: &String) -> Outcome {
        let mut interp = crate::hist::Interp::default();
        interp.rules_dir_set = true;
        let mut cur_class = None;
        let ops = [Op::SetMathml(xml.clone()), Op::Speech, Op::Overview, Op::Braille(IdRef::Empty), Op::Braille(IdRef::Nth(40000)), Op::NavCmd("ZoomIn".into()), Op::NavCmd("MoveNext".into()), Op::NavBraille, Op::NavMathml, Op::NavId, Op::BraillePos, Op::NodeFromBraillePos(3), Op::NavCmd("ZoomOutAll".into()), Op::NavCmd("MoveEnd".into()), Op::NavCmd("WhereAmI".into())];
        for op in &ops {
            let r = interp.run(op);
            match &r {
                crate::hist::OpResult::Panic(p) => {
                    let sig = crate::props::c08::name_panic(p, true, op, cur_class);
                    return Outcome::violation(sig, format!("{} panicked: {} at {}\nexpression: {}", op.kind(), p.msg, p.loc, xml));
                }
                crate::hist::OpResult::Err(_) => {
                    if let Op::SetMathml(_) = op {
                        return Outcome::reject("set_mathml Err");
                    }
                }
                crate::hist::OpResult::Ok(_) => {
                    if let Op::SetMathml(x) = op {
                        cur_class = crate::props::c08::input_class(x);
                    }
                }
            }
        }
        Outcome::pass(true)
    }
    fn to_json(&self, case: &String) -> serde_json::Value {
        // a replay file the C08 check can run: the same calls as a history in a session of its own
        let ops: Vec<(Op, u8)> = vec![(Op::SetMathml(case.clone()), 255), (Op::Speech, 255), (Op::Overview, 255), (Op::Braille(IdRef::Empty), 255), (Op::Braille(IdRef::Nth(40000)), 255), (Op::NavCmd("ZoomIn".into()), 255), (Op::NavCmd("MoveNext".into()), 255), (Op::NavBraille, 255), (Op::NavMathml, 255), (Op::NavId, 255), (Op::BraillePos, 255), (Op::NodeFromBraillePos(3), 255), (Op::NavCmd("ZoomOutAll".into()), 255), (Op::NavCmd("MoveEnd".into()), 255), (Op::NavCmd("WhereAmI".into()), 255)];
        serde_json::to_value(crate::props::c08::Case { start_with_rules: true, ops, probe: "<math><mi>x</mi><mo>+</mo><mn>1</mn></math>".into(), depth: None }).unwrap()
    }
    fn from_json(&self, _v: &serde_json::Value) -> Option<String> {
        None
    }
    fn rule(&self) -> String {
        String::new()
    }
    fn cases(&self) -> (usize, usize) {
        (0, 0)
    }
}

pub fn c08_case(data: &[u8]) -> String {
    decode_mathml(data)
}

const INTENT_PIECES: &[&str] = &["$a", "$b", "$c", "$z", "foo", "plus", "my-thing", "mo", "_", "7", "2.5", "-1", "(", ")", ",", ":", ":prefix", ":infix", ":silent", ":unit", " ", "$", "((", "))", ",,", "f($a)", "$a($b)", "\u{a0}", "𝑥", "'", "\""];

pub fn c19_case(data: &[u8]) -> crate::props::c19::Case {
    let mut b = Bytes::new(data);
    let host = b.below(crate::props::c19::HOSTS.len()) as u8;
    let recovery = if b.below(2) == 0 { "IgnoreIntent" } else { "Error" };
    let intent = match b.below(4) {
        0 => b.rest_str(),
        _ => {
            let n = 1 + b.below(14);
            let mut s = String::new();
            for _ in 0..n {
                if b.below(10) == 0 {
                    s.push_str(&b.short_str(4));
                } else {
                    s.push_str(INTENT_PIECES[b.below(INTENT_PIECES.len())]);
                }
            }
            s
        }
    };
    crate::props::c19::Case { host, intent, recovery: recovery.to_string(), kind: "fuzz".into(), lits: vec!["20.01".into(), "27.01".into(), "34.01".into()] }
}

// ------------------------------------------------------------------------------------------
// evaluation

struct Session {
    tx: Sender<Box<dyn FnOnce() -> (Outcome, bool) + Send>>,
    rx: Receiver<(Outcome, bool)>,
}

fn new_session() -> Session {
    let (tx, rx_in) = channel::<Box<dyn FnOnce() -> (Outcome, bool) + Send>>();
    let (tx_out, rx) = channel::<(Outcome, bool)>();
    std::thread::Builder::new()
        .stack_size(SESSION_STACK)
        .spawn(move || {
            let _ = api::set_rules_dir(REPO_RULES);
            while let Ok(f) = rx_in.recv() {
                let r = f();
                let tainted = r.1;
                if tx_out.send(r).is_err() || tainted {
                    break; // state after a panic is not trusted: the next case gets a fresh session
                }
            }
        })
        .expect("spawn fuzz session");
    Session { tx, rx }
}

/// Evaluate one case; returns the violations that are not listed as known findings.
pub fn evaluate<P: Property + 'static>(p: &'static P, case: P::Case) -> Vec<(String, String)> {
    static INIT: OnceLock<Vec<KnownFinding>> = OnceLock::new();
    let known = INIT.get_or_init(|| {
        pin_environment();
        install_panic_hook();
        load_known_findings()
    });
    let outcome = if p.own_sessions() {
        p.eval(&case)
    } else {
        static SESSION: OnceLock<Mutex<Option<Session>>> = OnceLock::new();
        let mut guard = SESSION.get_or_init(|| Mutex::new(None)).lock().unwrap();
        if guard.is_none() {
            *guard = Some(new_session());
        }
        let c = case.clone();
        let job: Box<dyn FnOnce() -> (Outcome, bool) + Send> = Box::new(move || {
            let o = p.eval(&c);
            (o, tainted())
        });
        let s = guard.as_ref().unwrap();
        let r = if s.tx.send(job).is_ok() { s.rx.recv().ok() } else { None };
        match r {
            Some((o, t)) => {
                if t {
                    *guard = None;
                }
                o
            }
            None => {
                // the session thread died outside a guarded call: report as a violation of its own
                *guard = None;
                Outcome::violation("fuzz:session-died", "the session thread died while evaluating the case")
            }
        }
    };
    // The function name inside a panic signature comes from the backtrace, and the nightly / ASan build of the fuzz
    // targets inlines differently from the stable build (the same panic at braille.rs:112 is attributed to
    // `highlight_first_indicator` there and to `index` here): under the fuzzer a panic also counts as listed when a
    // listed panic of the same file has the same (masked) message.
    fn loose(sig: &str) -> Option<(String, String)> {
        let rest = sig.strip_prefix("panic:").or_else(|| sig.strip_prefix("pre-rules:panic:"))?;
        let (file, tail) = rest.split_once("::")?;
        let (_func, msg) = tail.split_once(':')?;
        Some((file.to_string(), msg.trim_end_matches('*').chars().take(40).collect()))
    }
    let mut unknown = vec![];
    for (sig, detail) in outcome.violations() {
        if known_match(known, p.id(), &sig).is_some() {
            continue;
        }
        if let Some((file, msg)) = loose(&sig) {
            if known.iter().any(|k| k.property == p.id() && k.status == "known" && loose(&k.signature).map(|(f, m)| f == file && (m.starts_with(&msg) || msg.starts_with(&m))).unwrap_or(false)) {
                continue;
            }
        }
        write_replay(p.id(), &format!("fuzz-{}", sig), &detail, &p.to_json(&case), true);
        unknown.push((sig, detail));
    }
    unknown
}

/// used by the targets: evaluate and turn an unlisted violation into a libFuzzer crash
pub fn run<P: Property + 'static>(p: &'static P, case: P::Case) {
    let v = evaluate(p, case);
    if let Some((sig, detail)) = v.first() {
        eprintln!("VIOLATION property={} signature={}\n{}", p.id(), sig, detail.chars().take(1500).collect::<String>());
        std::process::abort();
    }
}

// ------------------------------------------------------------------------------------------
// generic coverage-guided target: the fuzzer's bytes are the *random source* of the property's own proptest strategy
// (proptest's pass-through RNG), so libFuzzer mutates and recombines the choices the structured generator makes --
// structure-aware fuzzing with the same domain and the same oracle as ./check <ID>, for every property.

const TAIL: usize = 1 << 18;

/// bytes -> a case of `p`'s thorough-tier strategy (None when the strategy rejects these choices)
pub fn case_from_bytes<P: Property>(p: &P, strat: &proptest::strategy::BoxedStrategy<P::Case>, data: &[u8]) -> Option<P::Case> {
    use proptest::strategy::{Strategy, ValueTree};
    use proptest::test_runner::{Config, RngAlgorithm, TestRng, TestRunner};
    let _ = p;
    // proptest's pass-through generator yields zeros once the bytes are used up, and rand's unbiased range sampling
    // rejects a zero draw for ever: the choice string is therefore continued by a pseudo-random tail that is a pure
    // function of the bytes (long enough that no strategy here reaches its end).
    let mut buf = Vec::with_capacity(data.len() + TAIL);
    buf.extend_from_slice(data);
    let mut x = fnv64(&[data]) | 1;
    while buf.len() < data.len() + TAIL {
        x ^= x << 13;
        x ^= x >> 7;
        x ^= x << 17;
        buf.extend_from_slice(&x.wrapping_mul(0x2545F4914F6CDD1D).to_le_bytes());
    }
    let rng = TestRng::from_seed(RngAlgorithm::PassThrough, &buf);
    let config = Config { failure_persistence: None, max_local_rejects: 2000, max_global_rejects: 200, ..Config::default() };
    let mut runner = TestRunner::new_with_rng(config, rng);
    strat.new_tree(&mut runner).ok().map(|t| t.current())
}

macro_rules! with_property {
    ($id:expr, $f:ident $(, $arg:expr)*) => {{
        use crate::props::*;
        match $id {
            "C01" => { static P: c01::C01 = c01::C01; $f(&P $(, $arg)*) }
            "C02" => { static P: c02::C02 = c02::C02; $f(&P $(, $arg)*) }
            "C03" => { static P: c03::C03 = c03::C03; $f(&P $(, $arg)*) }
            "C04" => { static P: c04::C04 = c04::C04; $f(&P $(, $arg)*) }
            "C05" => { static P: c05::C05 = c05::C05; $f(&P $(, $arg)*) }
            "C06" => { static P: c06::C06 = c06::C06; $f(&P $(, $arg)*) }
            "C07" => { static P: c07::C07 = c07::C07; $f(&P $(, $arg)*) }
            "C08" => { static P: c08::C08 = c08::C08; $f(&P $(, $arg)*) }
            "C09" => { static P: c09::C09 = c09::C09; $f(&P $(, $arg)*) }
            "C10" => { static P: c10::C10 = c10::C10; $f(&P $(, $arg)*) }
            "C11" => { static P: c11::C11 = c11::C11; $f(&P $(, $arg)*) }
            "C12" => { static P: c12::C12 = c12::C12; $f(&P $(, $arg)*) }
            "C13" => { static P: c13::C13 = c13::C13; $f(&P $(, $arg)*) }
            "C16" => { static P: c16::C16 = c16::C16; $f(&P $(, $arg)*) }
            "C17" => { static P: c17::C17 = c17::C17; $f(&P $(, $arg)*) }
            "C18" => { static P: c18::C18 = c18::C18; $f(&P $(, $arg)*) }
            "C19" => { static P: c19::C19 = c19::C19; $f(&P $(, $arg)*) }
            "C20" => { static P: c20::C20 = c20::C20; $f(&P $(, $arg)*) }
            _ => Default::default(),
        }
    }};
}

/// Properties the generic target serves (C14 works on private copies of the rules directory and C15 on a fixed
/// corpus x configuration grid: neither is driven by a proptest strategy worth mutating).
pub const GEN_TARGET_PROPS: &[&str] = &["C01", "C02", "C03", "C04", "C05", "C06", "C07", "C08", "C09", "C10", "C11", "C12", "C13", "C16", "C17", "C18", "C19", "C20"];

fn eval_bytes<P: Property + 'static>(p: &'static P, data: &[u8]) -> Vec<(String, String)> {
    use std::any::Any;
    use std::cell::RefCell;
    thread_local! { static STRAT: RefCell<Option<Box<dyn Any>>> = const { RefCell::new(None) }; }
    let case = STRAT.with(|s| {
        let mut s = s.borrow_mut();
        if s.is_none() {
            *s = Some(Box::new(p.strategy(Tier::Thorough)) as Box<dyn Any>);
        }
        let strat = s.as_ref().unwrap().downcast_ref::<proptest::strategy::BoxedStrategy<P::Case>>().expect("one property per process");
        case_from_bytes(p, strat, data)
    });
    match case {
        Some(c) => evaluate(p, c),
        None => vec![],
    }
}

/// evaluate the case that `data` selects from the strategy of property `id`; returns the unlisted violations
pub fn evaluate_bytes(id: &str, data: &[u8]) -> Vec<(String, String)> {
    with_property!(id, eval_bytes, data)
}

fn show_bytes<P: Property + 'static>(p: &'static P, data: &[u8]) -> String {
    let strat = p.strategy(Tier::Thorough);
    match case_from_bytes(p, &strat, data) {
        Some(c) => p.to_json(&c).to_string(),
        None => "rejected by the strategy".to_string(),
    }
}

/// the case (JSON form) that `data` selects
pub fn case_json_from_bytes(id: &str, data: &[u8]) -> String {
    with_property!(id, show_bytes, data)
}

/// entry of the generic libFuzzer target (property chosen by MCV_FUZZ_PROP)
pub fn run_bytes(data: &[u8]) {
    static ID: OnceLock<String> = OnceLock::new();
    let id = ID.get_or_init(|| std::env::var("MCV_FUZZ_PROP").unwrap_or_else(|_| "C01".to_string()));
    let v = evaluate_bytes(id, data);
    if let Some((sig, detail)) = v.first() {
        eprintln!("VIOLATION property={} signature={}\n{}", id, sig, detail.chars().take(1500).collect::<String>());
        std::process::abort();
    }
}
