//! mcv as a library: the generators, oracles and driver of the checks, so that the libFuzzer targets in /verif/fuzz
//! can reuse the same property definitions (`props::cNN`) and known-findings matching.
pub mod engine;
pub mod fuzzing;
pub mod gen;
pub mod hist;
pub mod norm;
pub mod props;
pub mod tex;
