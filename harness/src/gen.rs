//! Shared generators (DESIGN.md section 2): the MNode tree, XML writer/reader, token pools,
//! the structural MathML strategy, the textbook grammar, preference configurations.
#![allow(dead_code)]

use proptest::prelude::*;
use proptest::strategy::{BoxedStrategy, Strategy};
use serde::{Deserialize, Serialize};
use std::sync::OnceLock;
use std::collections::BTreeMap;

// ------------------------------------------------------------------------------------------
// MNode

#[derive(Clone, Debug, PartialEq, Eq, Serialize, Deserialize)]
pub struct MNode {
    pub tag: String,
    #[serde(default, skip_serializing_if = "Vec::is_empty")]
    pub attrs: Vec<(String, String)>,
    #[serde(default, skip_serializing_if = "Vec::is_empty")]
    pub kids: Vec<MNode>,
    /// Some(..) for token elements and "#text" nodes
    #[serde(default, skip_serializing_if = "Option::is_none")]
    pub text: Option<String>,
}

pub const TOKENS: &[&str] = &["mi", "mn", "mo", "mtext", "ms"];

pub fn xml_escape(s: &str, attr: bool) -> String {
    let mut o = String::with_capacity(s.len() + 8);
    for c in s.chars() {
        match c {
            '&' => o.push_str("&amp;"),
            '<' => o.push_str("&lt;"),
            '>' => o.push_str("&gt;"),
            '"' if attr => o.push_str("&quot;"),
            '\'' if attr => o.push_str("&apos;"),
            _ => o.push(c),
        }
    }
    o
}

impl MNode {
    pub fn leaf(tag: &str, text: &str) -> MNode {
        MNode { tag: tag.to_string(), attrs: vec![], kids: vec![], text: Some(text.to_string()) }
    }
    pub fn el(tag: &str, kids: Vec<MNode>) -> MNode {
        MNode { tag: tag.to_string(), attrs: vec![], kids, text: None }
    }
    pub fn mi(t: &str) -> MNode {
        MNode::leaf("mi", t)
    }
    pub fn mn(t: &str) -> MNode {
        MNode::leaf("mn", t)
    }
    pub fn mo(t: &str) -> MNode {
        MNode::leaf("mo", t)
    }
    pub fn mtext(t: &str) -> MNode {
        MNode::leaf("mtext", t)
    }
    pub fn row(kids: Vec<MNode>) -> MNode {
        MNode::el("mrow", kids)
    }
    pub fn math(kids: Vec<MNode>) -> MNode {
        MNode::el("math", kids)
    }
    pub fn attr(mut self, k: &str, v: &str) -> MNode {
        self.attrs.retain(|(kk, _)| kk != k);
        self.attrs.push((k.to_string(), v.to_string()));
        self
    }
    pub fn get_attr(&self, k: &str) -> Option<&str> {
        self.attrs.iter().find(|(kk, _)| kk == k).map(|(_, v)| v.as_str())
    }
    pub fn is_token(&self) -> bool {
        self.text.is_some() && self.tag != "#text"
    }
    pub fn txt(&self) -> &str {
        self.text.as_deref().unwrap_or("")
    }
    pub fn write_xml(&self, o: &mut String) {
        if self.tag == "#text" {
            o.push_str(&xml_escape(self.txt(), false));
            return;
        }
        o.push('<');
        o.push_str(&self.tag);
        for (k, v) in &self.attrs {
            o.push(' ');
            o.push_str(k);
            o.push_str("='");
            o.push_str(&xml_escape(v, true));
            o.push('\'');
        }
        if self.kids.is_empty() && self.text.is_none() {
            o.push_str("/>");
            return;
        }
        o.push('>');
        if let Some(t) = &self.text {
            o.push_str(&xml_escape(t, false));
        }
        for k in &self.kids {
            k.write_xml(o);
        }
        o.push_str("</");
        o.push_str(&self.tag);
        o.push('>');
    }
    pub fn to_xml(&self) -> String {
        let mut o = String::new();
        self.write_xml(&mut o);
        o
    }
    pub fn count_nodes(&self) -> usize {
        1 + self.kids.iter().map(|k| k.count_nodes()).sum::<usize>()
    }
    pub fn depth(&self) -> usize {
        1 + self.kids.iter().map(|k| k.depth()).max().unwrap_or(0)
    }
    pub fn walk<'a>(&'a self, f: &mut dyn FnMut(&'a MNode)) {
        f(self);
        for k in &self.kids {
            k.walk(f);
        }
    }
    pub fn walk_mut(&mut self, f: &mut dyn FnMut(&mut MNode)) {
        f(self);
        for k in &mut self.kids {
            k.walk_mut(f);
        }
    }
    pub fn any(&self, f: &dyn Fn(&MNode) -> bool) -> bool {
        if f(self) {
            return true;
        }
        self.kids.iter().any(|k| k.any(f))
    }
    pub fn tokens(&self) -> Vec<&MNode> {
        let mut v = vec![];
        self.walk(&mut |n| {
            if n.is_token() {
                v.push(n)
            }
        });
        v
    }
    pub fn all_ids(&self) -> Vec<String> {
        let mut v = vec![];
        self.walk(&mut |n| {
            if let Some(i) = n.get_attr("id") {
                v.push(i.to_string())
            }
        });
        v
    }
    /// structure only: names and token text, no attributes
    pub fn shape(&self) -> String {
        let mut o = String::new();
        self.write_shape(&mut o);
        o
    }
    fn write_shape(&self, o: &mut String) {
        o.push('(');
        o.push_str(&self.tag);
        if let Some(t) = &self.text {
            o.push(' ');
            o.push_str(t);
        }
        for k in &self.kids {
            k.write_shape(o);
        }
        o.push(')');
    }
    /// strip generated ids / data-id-added so canonical MathML can be compared across sessions
    pub fn strip_generated_ids(&mut self) {
        self.walk_mut(&mut |n| {
            let added = n.get_attr("data-id-added").is_some();
            if added {
                n.attrs.retain(|(k, _)| k != "id" && k != "data-id-added");
            }
        });
    }
    pub fn sort_attrs(&mut self) {
        self.walk_mut(&mut |n| n.attrs.sort());
    }
}

/// Parse with sxd-document (a parser independent of MathCAT's own serializer).
pub fn parse_xml(s: &str) -> Result<MNode, String> {
    let pkg = sxd_document::parser::parse(s).map_err(|e| format!("{:?}", e))?;
    let doc = pkg.as_document();
    let mut root = None;
    for c in doc.root().children() {
        if let sxd_document::dom::ChildOfRoot::Element(e) = c {
            if root.is_some() {
                return Err("more than one root element".into());
            }
            root = Some(e);
        }
    }
    let root = root.ok_or("no root element")?;
    Ok(convert(root))
}

fn convert(e: sxd_document::dom::Element) -> MNode {
    use sxd_document::dom::ChildOfElement as C;
    let mut attrs: Vec<(String, String)> = e
        .attributes()
        .iter()
        .map(|a| {
            let n = a.name();
            let name = match n.namespace_uri() {
                Some(_) if a.preferred_prefix().is_some() => format!("{}:{}", a.preferred_prefix().unwrap(), n.local_part()),
                _ => n.local_part().to_string(),
            };
            (name, a.value().to_string())
        })
        .collect();
    attrs.sort();
    let mut kids = vec![];
    let mut text = String::new();
    let mut has_el = false;
    for c in e.children() {
        match c {
            C::Element(k) => {
                has_el = true;
                kids.push(convert(k));
            }
            C::Text(t) => {
                text.push_str(t.text());
                kids.push(MNode { tag: "#text".into(), attrs: vec![], kids: vec![], text: Some(t.text().to_string()) });
            }
            _ => {}
        }
    }
    let tag = e.name().local_part().to_string();
    if !has_el {
        // pure text (or empty) content
        let is_tok = TOKENS.contains(&tag.as_str()) || !text.trim().is_empty();
        MNode { tag, attrs, kids: vec![], text: if is_tok { Some(text) } else { None } }
    } else {
        // drop whitespace-only text between elements
        kids.retain(|k| k.tag != "#text" || !k.txt().trim().is_empty());
        MNode { tag, attrs, kids, text: None }
    }
}

// ------------------------------------------------------------------------------------------
// operator dictionary (parsed textually from /repo/src/operator-info.in at run time)

#[derive(Clone, Debug, PartialEq, Eq)]
pub enum OpForm {
    Prefix,
    Infix,
    Postfix,
    LeftFence,
    RightFence,
}

#[derive(Clone, Debug)]
pub struct OpEntry {
    pub text: String,
    pub forms: Vec<(OpForm, usize)>,
}

impl OpEntry {
    pub fn priority(&self, f: &OpForm) -> Option<usize> {
        self.forms.iter().find(|(ff, _)| ff == f).map(|(_, p)| *p)
    }
    pub fn only(&self, f: &OpForm) -> bool {
        self.forms.len() == 1 && &self.forms[0].0 == f
    }
}

fn unescape_rust(s: &str) -> String {
    let mut o = String::new();
    let mut it = s.chars().peekable();
    while let Some(c) = it.next() {
        if c != '\\' {
            o.push(c);
            continue;
        }
        match it.next() {
            Some('u') => {
                // \u{XXXX}
                let mut hex = String::new();
                if it.next() == Some('{') {
                    for h in it.by_ref() {
                        if h == '}' {
                            break;
                        }
                        hex.push(h);
                    }
                }
                if let Some(ch) = u32::from_str_radix(&hex, 16).ok().and_then(char::from_u32) {
                    o.push(ch);
                }
            }
            Some('n') => o.push('\n'),
            Some('t') => o.push('\t'),
            Some(other) => o.push(other),
            None => {}
        }
    }
    o
}

pub fn operators() -> &'static Vec<OpEntry> {
    static OPS: OnceLock<Vec<OpEntry>> = OnceLock::new();
    OPS.get_or_init(|| {
        let text = std::fs::read_to_string("/repo/src/operator-info.in").expect("read operator-info.in");
        let key_re = regex::Regex::new(r#"^\s*"((?:[^"\\]|\\.)*)"\s*=>"#).unwrap();
        let info_re = regex::Regex::new(r"op_type:\s*OperatorTypes::([A-Z_]+),\s*priority:\s*(\d+)").unwrap();
        let mut out: Vec<OpEntry> = vec![];
        for line in text.lines() {
            let body = line.split("//").next().unwrap_or("");
            if let Some(c) = key_re.captures(line) {
                out.push(OpEntry { text: unescape_rust(&c[1]), forms: vec![] });
            }
            let body = if key_re.is_match(line) { line } else { body };
            for c in info_re.captures_iter(body) {
                let f = match &c[1] {
                    "PREFIX" => OpForm::Prefix,
                    "INFIX" => OpForm::Infix,
                    "POSTFIX" => OpForm::Postfix,
                    "LEFT_FENCE" => OpForm::LeftFence,
                    "RIGHT_FENCE" => OpForm::RightFence,
                    _ => continue,
                };
                if let Some(last) = out.last_mut() {
                    last.forms.push((f, c[2].parse().unwrap()));
                }
            }
        }
        out.retain(|e| !e.forms.is_empty());
        out
    })
}

// ------------------------------------------------------------------------------------------
// token pools

pub const LOWER: &str = "abcdefghijklmnopqrstuvwxyz";
pub const UPPER: &str = "ABCDEFGHIJKLMNOPQRSTUVWXYZ";
pub const GREEK_LOWER: &str = "αβγδεζηθικλμνξοπρστυφχψω";
pub const GREEK_UPPER: &str = "ΓΔΘΛΞΠΣΦΨΩ";
pub const GREEK_VARIANTS: &str = "ϵϑϰϕϱϖ∂∇";

pub fn one_char_of(s: &'static str) -> BoxedStrategy<String> {
    let v: Vec<char> = s.chars().collect();
    proptest::sample::select(v).prop_map(|c| c.to_string()).boxed()
}

pub fn select_str(v: &'static [&'static str]) -> BoxedStrategy<String> {
    proptest::sample::select(v.to_vec()).prop_map(|s| s.to_string()).boxed()
}

pub fn select_owned(v: Vec<String>) -> BoxedStrategy<String> {
    proptest::sample::select(v).boxed()
}

pub const FUNCTION_NAMES: &[&str] = &["sin", "cos", "tan", "log", "ln", "exp", "lim", "max", "min", "sinh", "arcsin", "det", "gcd", "f", "g", "h"];
pub const COMMON_INFIX: &[&str] = &["+", "-", "−", "=", "<", ">", "≤", "≥", "×", "·", "⋅", "/", "÷", "±", "∈", "⊂", "∪", "∩", "→", "⇒", "≠", "≈", ",", ":", "∣", "*", "∧", "∨", "∘", ";", "≡", "∝", "⊕", "⊗", "∖", "^", "%", "&"];
pub const COMMON_PREFIX: &[&str] = &["-", "−", "+", "¬", "∑", "∏", "∫", "∂", "∇", "√", "∀", "∃", "∮", "!", "±", "∠", "△", "#"];
pub const COMMON_POSTFIX: &[&str] = &["!", "!!", "%", "′", "'", "″", "°", "++", "--"];
pub const OPEN_FENCES: &[&str] = &["(", "[", "{", "⟨", "|", "‖", "⌊", "⌈", "<"];
pub const CLOSE_FENCES: &[&str] = &[")", "]", "}", "⟩", "|", "‖", "⌋", "⌉", ">"];
pub const SPECIAL_TOKEN_TEXT: &[&str] = &[
    "'", "′", "″", "‴", "⁗", "''", "'''", ".", "..", "...", "…", "⋯", "|", "||", "-", "--", "---", "----", "_", "__", "_ _", "\u{a0}", " ", "\u{2009}", "\u{202f}", "\u{2003}", "arc", "arc ", "∞", "$", "€", "°", "∘", "~", "˜", "¯", "‾", "^", "ˆ", "˙", "¨", "::", ":", "ǁ", "\u{2061}", "\u{2062}", "\u{2063}", "\u{2064}", "%", "‰", "dx", "dy", "d", "∂", "e", "i", "π",
    "\u{0304}", "\u{0305}", "\u{0332}", "\u{2010}", "\u{2013}", "\u{2014}", "\u{2015}", "\u{02c9}", "\u{02bc}", "\u{02dc}", "\u{223c}", "\u{02c6}", "\u{0302}", "\u{0307}", "\u{0308}", "\u{00ba}", "\u{2092}", "\u{20d8}", "\u{2218}", "\u{2212}",
];
pub const WORDS: &[&str] = &["if", "and", "or", "for all", "where", "such that", "otherwise", "is even", "cm", "kg", "m", "s", "km", "mol", "text", "a b", "the", "x is", "A B C", "DEF"];
pub const ELEMENTS: &[&str] = &["H", "He", "Li", "C", "N", "O", "Na", "Mg", "Al", "Cl", "K", "Ca", "Fe", "Cu", "Zn", "Ag", "S", "P", "Br", "I", "U"];
pub const SHAPES: &[&str] = &["△", "∠", "▭", "□", "⊙", "∥", "⟂"];
pub const ROMAN: &[&str] = &["I", "II", "IV", "ix", "XII", "MCM", "vi", "iii"];
pub const REGEX_LOOKALIKES: &[&str] = &["xmlns:m", "class=\"MJX-x\"", "class='data-mjx-y'", "&amp;alpha;", "</m:mi>", "<m:mi>", "a:b", "m:x", "x&y", "1<2", "a>b", "\"q\"", "it's"];

pub fn ident() -> BoxedStrategy<String> {
    prop_oneof![
        10 => one_char_of(LOWER),
        4 => one_char_of(UPPER),
        3 => one_char_of(GREEK_LOWER),
        1 => one_char_of(GREEK_UPPER),
        1 => one_char_of(GREEK_VARIANTS),
        2 => select_str(FUNCTION_NAMES),
        1 => select_str(ELEMENTS),
        1 => "[a-zA-Z]{2,4}".prop_map(|s| s),
    ]
    .boxed()
}

#[derive(Clone, Debug, PartialEq, Eq, Serialize, Deserialize)]
pub struct Locale {
    pub name: String,
    pub block: String,
    pub decimal: String,
}

pub fn locales() -> Vec<Locale> {
    vec![
        Locale { name: "US".into(), block: ", \u{a0}\u{202f}".into(), decimal: ".".into() },
        Locale { name: "continental".into(), block: ". \u{a0}\u{202f}".into(), decimal: ",".into() },
        Locale { name: "swiss".into(), block: "' \u{a0}\u{202f}".into(), decimal: ".".into() },
        Locale { name: "space-only".into(), block: " \u{a0}\u{202f}".into(), decimal: ".,".into() },
        Locale { name: "custom".into(), block: "_".into(), decimal: ";".into() },
    ]
}

pub fn locale_strategy() -> BoxedStrategy<Locale> {
    proptest::sample::select(locales()).boxed()
}

pub fn number_text() -> BoxedStrategy<String> {
    prop_oneof![
        6 => "[0-9]{1,3}",
        3 => "[0-9]{1,3}\\.[0-9]{1,3}",
        2 => "[0-9]{1,3},[0-9]{3}",
        1 => "[0-9]{1,3},[0-9]{1,3}",
        1 => "[0-9]{1,3}\\.[0-9]{3},[0-9]{1,2}",
        1 => "[0-9]{1,3} [0-9]{3}",
        1 => "\\.[0-9]{1,3}",
        1 => "[0-9]{1,3}\\.",
        1 => "[-−][0-9]{1,3}",
        1 => "[0-9]{4,7}",
    ]
    .boxed()
}

/// token generator pools; each returns a complete leaf MNode
pub fn tok_ident() -> BoxedStrategy<MNode> {
    ident().prop_map(|s| MNode::mi(&s)).boxed()
}
pub fn tok_number() -> BoxedStrategy<MNode> {
    number_text().prop_map(|s| MNode::mn(&s)).boxed()
}
pub fn tok_common_op() -> BoxedStrategy<MNode> {
    prop_oneof![
        6 => select_str(COMMON_INFIX),
        2 => select_str(COMMON_PREFIX),
        2 => select_str(COMMON_POSTFIX),
        2 => select_str(OPEN_FENCES),
        2 => select_str(CLOSE_FENCES),
    ]
    .prop_map(|s| MNode::mo(&s))
    .boxed()
}
pub fn tok_dict_op() -> BoxedStrategy<MNode> {
    let ops: Vec<String> = operators().iter().map(|o| o.text.clone()).collect();
    select_owned(ops).prop_map(|s| MNode::mo(&s)).boxed()
}
pub fn tok_text() -> BoxedStrategy<MNode> {
    prop_oneof![3 => select_str(WORDS), 1 => "[a-z]{1,6}( [a-z]{1,5})?".prop_map(|s| s)].prop_map(|s| MNode::mtext(&s)).boxed()
}
pub fn any_token_tag() -> BoxedStrategy<String> {
    prop_oneof![3 => Just("mi"), 2 => Just("mn"), 3 => Just("mo"), 2 => Just("mtext"), 1 => Just("ms")].prop_map(|s| s.to_string()).boxed()
}
pub const SPECIAL_MO: &[&str] = &[
    "'", "′", "″", "‴", "⁗", "''", "'''", ".", "..", "...", "…", "⋯", "|", "||", "-", "--", "_", "__", "\u{a0}", " ", "\u{2009}", "\u{202f}", "arc", "∞", "°", "∘", "~", "˜", "¯", "‾", "^", "ˆ", "˙", "¨", "::", ":", "ǁ", "\u{2061}", "\u{2062}", "\u{2063}", "\u{2064}", "%",
    "\u{0304}", "\u{0305}", "\u{0332}", "\u{2010}", "\u{2013}", "\u{2014}", "\u{2015}", "\u{02c9}", "\u{02bc}", "\u{02dc}", "\u{223c}", "\u{02c6}", "\u{0302}", "\u{0307}", "\u{0308}", "\u{00ba}", "\u{2092}", "\u{20d8}", "\u{2218}", "\u{2212}",
];
pub const SPECIAL_MI: &[&str] = &["…", "⋯", "∞", "$", "€", "°", "dx", "dy", "d", "∂", "e", "i", "π", "--", "---", "----", "_", "___", "...", "arc", "arc ", "%", "‰", "ℝ", "ℓ", "∇"];
pub const SPECIAL_MTEXT: &[&str] = &["\u{a0}", " ", "\u{2009}", "\u{202f}", "\u{2003}", "--", "---", "----", "_", "_ _", "arc", "arc ", "…", "...", "$", "%", "°"];

/// special texts in the element where a MathML generator would put them
pub fn tok_special() -> BoxedStrategy<MNode> {
    prop_oneof![
        5 => select_str(SPECIAL_MO).prop_map(|s| MNode::mo(&s)),
        3 => select_str(SPECIAL_MI).prop_map(|s| MNode::mi(&s)),
        2 => select_str(SPECIAL_MTEXT).prop_map(|s| MNode::mtext(&s)),
    ]
    .boxed()
}
/// special texts in an arbitrary token element ("type-inconsistent" tokens)
pub fn tok_special_anytag() -> BoxedStrategy<MNode> {
    (any_token_tag(), select_str(SPECIAL_TOKEN_TEXT)).prop_map(|(t, s)| MNode::leaf(&t, &s)).boxed()
}
/// is the token's text of the kind its element is meant for?  (empty / blank text is always allowed)
pub fn type_consistent(n: &MNode) -> bool {
    let t = n.txt();
    if t.trim().is_empty() {
        return true;
    }
    let only_primes = t.chars().all(|c| "'′″‴⁗".contains(c));
    match n.tag.as_str() {
        "mn" => {
            let body = t.trim_start_matches(['-', '−']);
            !body.is_empty() && body.chars().any(|c| c.is_ascii_digit()) && body.chars().all(|c| c.is_ascii_digit() || ".,' \u{a0}\u{202f}".contains(c))
        }
        "mi" => SPECIAL_MI.contains(&t) || (t.chars().all(|c| c.is_alphanumeric() || c == ' ') && t.chars().next().map(|c| c.is_alphabetic()).unwrap_or(false)),
        "mo" => SPECIAL_MO.contains(&t) || operators().iter().any(|o| o.text == t),
        "mtext" | "ms" => !only_primes && !(t.chars().count() == 1 && !t.chars().all(|c| c.is_alphanumeric()) && operators().iter().any(|o| o.text == t) && !SPECIAL_MTEXT.contains(&t)),
        _ => true,
    }
}
pub fn all_tokens_consistent(n: &MNode) -> bool {
    n.tokens().iter().all(|t| type_consistent(t))
}
pub fn tok_degenerate() -> BoxedStrategy<MNode> {
    (any_token_tag(), prop_oneof![3 => Just(""), 1 => Just(" "), 1 => Just("\u{a0}"), 1 => Just("  \n ")]).prop_map(|(t, s)| MNode::leaf(&t, s)).boxed()
}
pub fn tok_misc() -> BoxedStrategy<MNode> {
    prop_oneof![
        2 => select_str(ELEMENTS).prop_map(|s| MNode::mi(&s)),
        1 => (prop_oneof![Just("mi"), Just("mtext")], select_str(ROMAN)).prop_map(|(t, s)| MNode::leaf(t, &s)),
        1 => select_str(SHAPES).prop_map(|s| MNode::mo(&s)),
        1 => (prop_oneof![Just("mi"), Just("mtext"), Just("mo")], select_str(FUNCTION_NAMES)).prop_map(|(t, s)| if t == "mo" && !operators().iter().any(|o| o.text == s) { MNode::mi(&s) } else { MNode::leaf(t, &s) }),
        1 => (prop_oneof![Just("mi"), Just("mtext")], "[A-Z]{2,3}").prop_map(|(t, s)| MNode::leaf(t, &s)),
    ]
    .boxed()
}
/// arbitrary pairing of element and text
pub fn tok_mismatch() -> BoxedStrategy<MNode> {
    prop_oneof![
        2 => tok_special_anytag(),
        1 => (any_token_tag(), select_str(ELEMENTS)).prop_map(|(t, s)| MNode::leaf(&t, &s)),
        1 => (any_token_tag(), select_str(ROMAN)).prop_map(|(t, s)| MNode::leaf(&t, &s)),
        1 => (any_token_tag(), select_str(FUNCTION_NAMES)).prop_map(|(t, s)| MNode::leaf(&t, &s)),
        1 => (any_token_tag(), number_text()).prop_map(|(t, s)| MNode::leaf(&t, &s)),
        1 => (any_token_tag(), select_str(COMMON_INFIX)).prop_map(|(t, s)| MNode::leaf(&t, &s)),
        1 => (any_token_tag(), "[0-9A-F]{2,4}").prop_map(|(t, s)| MNode::leaf(&t, &s)),
    ]
    .boxed()
}

#[derive(Clone, Debug)]
pub struct TokCfg {
    pub ident: u32,
    pub number: u32,
    pub common_op: u32,
    pub dict_op: u32,
    pub text: u32,
    pub special: u32,
    pub degenerate: u32,
    pub misc: u32,
    pub mismatch: u32,
    pub lookalike: u32,
    pub mathvariant: bool,
}

impl TokCfg {
    pub fn everything() -> TokCfg {
        TokCfg { ident: 10, number: 6, common_op: 8, dict_op: 2, text: 2, special: 4, degenerate: 2, misc: 3, mismatch: 1, lookalike: 0, mathvariant: true }
    }
    pub fn plain() -> TokCfg {
        TokCfg { ident: 10, number: 6, common_op: 8, dict_op: 0, text: 1, special: 0, degenerate: 0, misc: 0, mismatch: 0, lookalike: 0, mathvariant: false }
    }
}

pub const MATHVARIANTS: &[&str] = &[
    "normal", "bold", "italic", "bold-italic", "double-struck", "bold-fraktur", "script", "bold-script", "fraktur", "sans-serif", "bold-sans-serif", "sans-serif-italic", "sans-serif-bold-italic", "monospace",
];

pub fn token(cfg: &TokCfg) -> BoxedStrategy<MNode> {
    let mut v: Vec<(u32, BoxedStrategy<MNode>)> = vec![];
    if cfg.ident > 0 {
        v.push((cfg.ident, tok_ident()));
    }
    if cfg.number > 0 {
        v.push((cfg.number, tok_number()));
    }
    if cfg.common_op > 0 {
        v.push((cfg.common_op, tok_common_op()));
    }
    if cfg.dict_op > 0 {
        v.push((cfg.dict_op, tok_dict_op()));
    }
    if cfg.text > 0 {
        v.push((cfg.text, tok_text()));
    }
    if cfg.special > 0 {
        v.push((cfg.special, tok_special()));
    }
    if cfg.degenerate > 0 {
        v.push((cfg.degenerate, tok_degenerate()));
    }
    if cfg.misc > 0 {
        v.push((cfg.misc, tok_misc()));
    }
    if cfg.mismatch > 0 {
        v.push((cfg.mismatch, tok_mismatch()));
    }
    if cfg.lookalike > 0 {
        v.push((cfg.lookalike, (any_token_tag(), select_str(REGEX_LOOKALIKES)).prop_map(|(t, s)| MNode::leaf(&t, &s)).boxed()));
    }
    let base = proptest::strategy::Union::new_weighted(v).boxed();
    if cfg.mathvariant {
        (base, proptest::option::weighted(0.08, select_str(MATHVARIANTS))).prop_map(|(n, mv)| if let Some(mv) = mv { n.attr("mathvariant", &mv) } else { n }).boxed()
    } else {
        base
    }
}

// ------------------------------------------------------------------------------------------
// G-struct

#[derive(Clone, Debug)]
pub struct StructCfg {
    pub depth: u32,
    pub size: u32,
    pub wrappers: bool,
    pub tables: bool,
    pub multiscripts: bool,
    pub degenerate: bool,
    pub mfenced: bool,
    pub semantics: bool,
}

impl StructCfg {
    pub fn full() -> StructCfg {
        StructCfg { depth: 5, size: 40, wrappers: true, tables: true, multiscripts: true, degenerate: true, mfenced: true, semantics: true }
    }
}

fn n_kids(inner: BoxedStrategy<MNode>, lo: usize, hi: usize) -> BoxedStrategy<Vec<MNode>> {
    proptest::collection::vec(inner, lo..=hi).boxed()
}

pub fn empty_mrow() -> MNode {
    MNode::el("mrow", vec![])
}

/// arbitrary (arity-correct) presentation MathML below <math>
pub fn structure(tok: BoxedStrategy<MNode>, cfg: StructCfg) -> BoxedStrategy<MNode> {
    let leaf = tok;
    let cfg2 = cfg.clone();
    leaf.prop_recursive(cfg.depth, cfg.size, 5, move |inner| {
        let cfg = cfg2.clone();
        // a "slot" is a child position: usually a real subtree, sometimes degenerate
        let slot: BoxedStrategy<MNode> = if cfg.degenerate {
            prop_oneof![
                20 => inner.clone(),
                2 => Just(empty_mrow()),
                1 => tok_degenerate(),
                1 => inner.clone().prop_map(|k| MNode::row(vec![k])),
            ]
            .boxed()
        } else {
            inner.clone().boxed()
        };
        let mut v: Vec<(u32, BoxedStrategy<MNode>)> = vec![];
        v.push((10, n_kids(inner.clone().boxed(), if cfg.degenerate { 0 } else { 2 }, 6).prop_map(MNode::row).boxed()));
        v.push((4, (slot.clone(), slot.clone()).prop_map(|(a, b)| MNode::el("mfrac", vec![a, b])).boxed()));
        v.push((3, n_kids(inner.clone().boxed(), 1, 3).prop_map(|k| MNode::el("msqrt", k)).boxed()));
        v.push((2, (slot.clone(), slot.clone()).prop_map(|(a, b)| MNode::el("mroot", vec![a, b])).boxed()));
        v.push((5, (slot.clone(), slot.clone()).prop_map(|(a, b)| MNode::el("msup", vec![a, b])).boxed()));
        v.push((5, (slot.clone(), slot.clone()).prop_map(|(a, b)| MNode::el("msub", vec![a, b])).boxed()));
        v.push((3, (slot.clone(), slot.clone(), slot.clone()).prop_map(|(a, b, c)| MNode::el("msubsup", vec![a, b, c])).boxed()));
        v.push((2, (slot.clone(), slot.clone()).prop_map(|(a, b)| MNode::el("munder", vec![a, b])).boxed()));
        v.push((2, (slot.clone(), slot.clone()).prop_map(|(a, b)| MNode::el("mover", vec![a, b])).boxed()));
        v.push((2, (slot.clone(), slot.clone(), slot.clone()).prop_map(|(a, b, c)| MNode::el("munderover", vec![a, b, c])).boxed()));
        if cfg.multiscripts {
            let script: BoxedStrategy<MNode> = prop_oneof![4 => inner.clone(), 2 => Just(MNode::el("none", vec![])), 1 => Just(empty_mrow())].boxed();
            let pairs = |lo: usize, hi: usize, s: BoxedStrategy<MNode>| proptest::collection::vec((s.clone(), s), lo..=hi).prop_map(|v| v.into_iter().flat_map(|(a, b)| vec![a, b]).collect::<Vec<_>>());
            v.push((
                3,
                (slot.clone(), pairs(0, 2, script.clone()), proptest::option::weighted(0.5, pairs(0, 2, script.clone())))
                    .prop_map(|(base, post, pre)| {
                        let mut k = vec![base];
                        k.extend(post);
                        if let Some(pre) = pre {
                            k.push(MNode::el("mprescripts", vec![]));
                            k.extend(pre);
                        }
                        MNode::el("mmultiscripts", k)
                    })
                    .boxed(),
            ));
        }
        if cfg.tables {
            let cell = n_kids(inner.clone().boxed(), 0, 2).prop_map(|k| MNode::el("mtd", k));
            let rowtag = prop_oneof![9 => Just("mtr"), 1 => Just("mlabeledtr")];
            let row = (rowtag, proptest::collection::vec(cell, 1..=3)).prop_map(|(t, k)| MNode::el(t, k));
            v.push((3, proptest::collection::vec(row, 1..=3).prop_map(|k| MNode::el("mtable", k)).boxed()));
        }
        if cfg.mfenced {
            let opens = prop_oneof![3 => Just(None), 1 => Just(Some("[".to_string())), 1 => Just(Some("".to_string())), 1 => Just(Some("{".to_string())), 1 => Just(Some("|".to_string())), 1 => Just(Some("<".to_string()))];
            let closes = prop_oneof![3 => Just(None), 1 => Just(Some("]".to_string())), 1 => Just(Some("".to_string())), 1 => Just(Some(")".to_string())), 1 => Just(Some("|".to_string())), 1 => Just(Some(">".to_string()))];
            let seps = prop_oneof![4 => Just(None), 1 => Just(Some("".to_string())), 1 => Just(Some(";".to_string())), 1 => Just(Some(";,".to_string())), 1 => Just(Some(" , ; ".to_string())), 1 => Just(Some("+-".to_string()))];
            v.push((
                3,
                (n_kids(inner.clone().boxed(), 0, 4), opens, closes, seps)
                    .prop_map(|(k, o, c, s)| {
                        let mut n = MNode::el("mfenced", k);
                        if let Some(o) = o {
                            n = n.attr("open", &o);
                        }
                        if let Some(c) = c {
                            n = n.attr("close", &c);
                        }
                        if let Some(s) = s {
                            // always enough separators: what happens when they run out is contested
                            // between MathML (repeat the last) and MathCAT's pinned test (use ',')
                            let need = n.kids.len().saturating_sub(1);
                            let have: Vec<char> = s.chars().filter(|c| !c.is_whitespace()).collect();
                            let mut s = s.clone();
                            if !have.is_empty() {
                                for i in have.len()..need {
                                    s.push(have[i % have.len()]);
                                }
                            }
                            n = n.attr("separators", &s);
                        }
                        n
                    })
                    .boxed(),
            ));
        }
        if cfg.wrappers {
            v.push((3, n_kids(inner.clone().boxed(), 0, 3).prop_map(|k| MNode::el("mstyle", k).attr("mathcolor", "red")).boxed()));
            v.push((2, n_kids(inner.clone().boxed(), 0, 3).prop_map(|k| MNode::el("mpadded", k).attr("width", "+1em")).boxed()));
            v.push((1, n_kids(inner.clone().boxed(), 0, 2).prop_map(|k| MNode::el("mphantom", k)).boxed()));
            v.push((2, (n_kids(inner.clone().boxed(), 1, 2), select_str(&["box", "circle", "updiagonalstrike", "left right", "radical", "longdiv", "roundedbox"])).prop_map(|(k, n)| MNode::el("menclose", k).attr("notation", &n)).boxed()));
            v.push((1, n_kids(inner.clone().boxed(), 1, 2).prop_map(|k| MNode::el("merror", k)).boxed()));
            v.push((1, select_str(&["1em", "0.2em", "10px", "0", "-0.1em", "thinmathspace"]).prop_map(|w| MNode::el("mspace", vec![]).attr("width", &w)).boxed()));
        }
        if cfg.semantics {
            v.push((
                2,
                (inner.clone(), any::<bool>(), any::<bool>())
                    .prop_map(|(k, ann, annxml)| {
                        let mut kids = vec![k];
                        if ann {
                            kids.push(MNode::leaf("annotation", "x^2 + \\alpha").attr("encoding", "application/x-tex"));
                        }
                        if annxml {
                            kids.push(MNode::el("annotation-xml", vec![MNode::el("apply", vec![MNode::el("plus", vec![]), MNode::leaf("ci", "x"), MNode::leaf("cn", "1")])]).attr("encoding", "MathML-Content"));
                        }
                        MNode::el("semantics", kids)
                    })
                    .boxed(),
            ));
        }
        proptest::strategy::Union::new_weighted(v)
    })
    .boxed()
}

/// wrap content into <math>, with 1..k top-level children
pub fn math_of(content: BoxedStrategy<MNode>) -> BoxedStrategy<MNode> {
    prop_oneof![
        3 => content.clone().prop_map(|c| MNode::math(vec![c])),
        2 => proptest::collection::vec(content.clone(), 2..=5).prop_map(MNode::math),
        1 => proptest::collection::vec(content, 2..=4).prop_map(|v| MNode::math(vec![MNode::row(v)])),
    ]
    .boxed()
}

// ------------------------------------------------------------------------------------------
// G-tex: the textbook grammar.  Operand positions are holes filled by `operand`.

#[derive(Clone, Debug)]
pub struct TexCfg {
    pub depth: u32,
    pub size: u32,
    pub tables: bool,
    pub text: bool,
}

impl Default for TexCfg {
    fn default() -> Self {
        TexCfg { depth: 4, size: 24, tables: true, text: true }
    }
}

fn join_with_ops(items: Vec<MNode>, ops: Vec<String>) -> Vec<MNode> {
    let mut out = vec![];
    for (i, it) in items.into_iter().enumerate() {
        let mut it = it;
        if i > 0 {
            let op = &ops[(i - 1) % ops.len()];
            out.push(MNode::mo(op));
            // an invisible product of two bare operands (numbers!) reads as one number or a mixed fraction:
            // the right factor is parenthesised, as a textbook would
            if op == "\u{2062}" {
                it = MNode::row(vec![MNode::mo("("), it, MNode::mo(")")]);
            }
        }
        out.push(it);
    }
    out
}

pub fn textbook(operand: BoxedStrategy<MNode>, cfg: TexCfg) -> BoxedStrategy<MNode> {
    let cfg2 = cfg.clone();
    operand
        .prop_recursive(cfg.depth, cfg.size, 4, move |inner| {
            let cfg = cfg2.clone();
            let i = || inner.clone().boxed();
            let sumops = proptest::collection::vec(select_str(&["+", "-", "−", "±"]), 3);
            let relops = proptest::collection::vec(select_str(&["=", "<", "≤", "≥", "≠", "≈", "∈"]), 3);
            let mulops = proptest::collection::vec(select_str(&["×", "·", "\u{2062}", "⋅", "/"]), 3);
            let mut v: Vec<(u32, BoxedStrategy<MNode>)> = vec![];
            v.push((8, (proptest::collection::vec(i(), 2..=4), sumops).prop_map(|(k, o)| MNode::row(join_with_ops(k, o))).boxed()));
            v.push((4, (proptest::collection::vec(i(), 2..=3), relops).prop_map(|(k, o)| MNode::row(join_with_ops(k, o))).boxed()));
            v.push((4, (proptest::collection::vec(i(), 2..=3), mulops).prop_map(|(k, o)| MNode::row(join_with_ops(k, o))).boxed()));
            // juxtaposition: every factor after the first is parenthesised
            v.push((2, proptest::collection::vec(i(), 2..=3).prop_map(|k| MNode::row(k.into_iter().enumerate().map(|(j, it)| if j == 0 { it } else { MNode::row(vec![MNode::mo("("), it, MNode::mo(")")]) }).collect())).boxed()));
            v.push((6, (i(), i()).prop_map(|(a, b)| MNode::el("mfrac", vec![a, b])).boxed()));
            v.push((6, (i(), i()).prop_map(|(a, b)| MNode::el("msup", vec![a, b])).boxed()));
            v.push((4, (i(), i()).prop_map(|(a, b)| MNode::el("msub", vec![a, b])).boxed()));
            v.push((2, (i(), i(), i()).prop_map(|(a, b, c)| MNode::el("msubsup", vec![a, b, c])).boxed()));
            v.push((3, i().prop_map(|a| MNode::el("msqrt", vec![a])).boxed()));
            v.push((2, (i(), i()).prop_map(|(a, b)| MNode::el("mroot", vec![a, b])).boxed()));
            // fences
            v.push((
                5,
                (i(), select_str(&["()", "[]", "{}", "||", "⟨⟩", "⌊⌋"])).prop_map(|(a, f)| {
                    let mut c = f.chars();
                    let (o, cl) = (c.next().unwrap().to_string(), c.next().unwrap().to_string());
                    MNode::row(vec![MNode::mo(&o), a, MNode::mo(&cl)])
                })
                .boxed(),
            ));
            // function application
            v.push((
                4,
                (select_str(&["sin", "cos", "log", "ln", "f", "g", "exp", "tan"]), i(), any::<bool>())
                    .prop_map(|(f, a, paren)| {
                        if paren {
                            MNode::row(vec![MNode::mi(&f), MNode::mo("\u{2061}"), MNode::row(vec![MNode::mo("("), a, MNode::mo(")")])])
                        } else {
                            MNode::row(vec![MNode::mi(&f), MNode::mo("\u{2061}"), a])
                        }
                    })
                    .boxed(),
            ));
            // f(a, b)
            v.push((2, (select_str(&["f", "g", "max", "min", "gcd"]), i(), i()).prop_map(|(f, a, b)| MNode::row(vec![MNode::mi(&f), MNode::mo("("), a, MNode::mo(","), b, MNode::mo(")")])).boxed()));
            // big operators with limits
            v.push((
                3,
                (select_str(&["∑", "∏", "∫", "⋃", "lim"]), i(), i(), i(), 0..3u8)
                    .prop_map(|(op, lo, hi, body, kind)| {
                        let opn = if op == "lim" { MNode::mi(&op) } else { MNode::mo(&op) };
                        let big = match kind {
                            0 => MNode::el("munderover", vec![opn, lo, hi]),
                            1 => MNode::el("msubsup", vec![opn, lo, hi]),
                            _ => MNode::el("munder", vec![opn, lo]),
                        };
                        MNode::row(vec![big, body])
                    })
                    .boxed(),
            ));
            // unary minus, factorial
            v.push((2, i().prop_map(|a| MNode::row(vec![MNode::mo("-"), a])).boxed()));
            v.push((1, i().prop_map(|a| MNode::row(vec![a, MNode::mo("!")])).boxed()));
            // binomial
            v.push((1, (i(), i()).prop_map(|(a, b)| MNode::row(vec![MNode::mo("("), MNode::el("mfrac", vec![a, b]).attr("linethickness", "0"), MNode::mo(")")])).boxed()));
            // over/under accents
            v.push((2, (i(), select_str(&["¯", "^", "→", "˙", "~"])).prop_map(|(a, acc)| MNode::el("mover", vec![a, MNode::mo(&acc)])).boxed()));
            v.push((1, i().prop_map(|a| MNode::el("menclose", vec![a]).attr("notation", "box")).boxed()));
            if cfg.tables {
                let cell = i().prop_map(|a| MNode::el("mtd", vec![a]));
                let tbl = (1..=3usize, 1..=3usize).prop_flat_map(move |(r, c)| proptest::collection::vec(proptest::collection::vec(cell.clone(), c), r)).prop_map(|rows| MNode::el("mtable", rows.into_iter().map(|r| MNode::el("mtr", r)).collect()));
                v.push((
                    3,
                    (tbl, select_str(&["()", "[]", "||", "{", ""])).prop_map(|(t, f)| {
                        let mut c = f.chars();
                        match (c.next(), c.next()) {
                            (Some(o), Some(cl)) => MNode::row(vec![MNode::mo(&o.to_string()), t, MNode::mo(&cl.to_string())]),
                            (Some(o), None) => MNode::row(vec![MNode::mo(&o.to_string()), t]),
                            _ => t,
                        }
                    })
                    .boxed(),
                ));
            }
            if cfg.text {
                v.push((1, (i(), select_str(&["if", "and", "for all", "where"]), i()).prop_map(|(a, w, b)| MNode::row(vec![a, MNode::mtext(&w), b])).boxed()));
            }
            proptest::strategy::Union::new_weighted(v)
        })
        .boxed()
}

// ------------------------------------------------------------------------------------------
// configurations (G-cfg), discovered from the rules directory

pub fn languages() -> Vec<String> {
    static L: OnceLock<Vec<String>> = OnceLock::new();
    L.get_or_init(|| {
        let mut out = vec![];
        let base = "/repo/Rules/Languages";
        let mut dirs: Vec<_> = std::fs::read_dir(base).map(|r| r.filter_map(|e| e.ok()).collect()).unwrap_or_else(|_| vec![]);
        dirs.sort_by_key(|d| d.file_name());
        for d in dirs {
            let name = d.file_name().to_string_lossy().to_string();
            if name == "zz" || !d.path().is_dir() {
                continue;
            }
            let has_rules = |p: &std::path::Path| std::fs::read_dir(p).map(|r| r.filter_map(|e| e.ok()).any(|e| e.file_name().to_string_lossy().ends_with("_Rules.yaml"))).unwrap_or(false);
            if has_rules(&d.path()) {
                out.push(name.clone());
            }
            let mut subs: Vec<_> = std::fs::read_dir(d.path()).map(|r| r.filter_map(|e| e.ok()).collect()).unwrap_or_else(|_| vec![]);
            subs.sort_by_key(|d| d.file_name());
            for s in subs {
                let sn = s.file_name().to_string_lossy().to_string();
                if s.path().is_dir() && sn != "SharedRules" && sn.len() <= 4 {
                    out.push(format!("{}-{}", name, sn));
                }
            }
        }
        out
    })
    .clone()
}

pub fn braille_codes() -> Vec<String> {
    static L: OnceLock<Vec<String>> = OnceLock::new();
    L.get_or_init(|| {
        let mut out = vec![];
        let mut dirs: Vec<_> = std::fs::read_dir("/repo/Rules/Braille").map(|r| r.filter_map(|e| e.ok()).collect()).unwrap_or_else(|_| vec![]);
        dirs.sort_by_key(|d| d.file_name());
        for d in dirs {
            if d.path().is_dir() {
                out.push(d.file_name().to_string_lossy().to_string());
            }
        }
        out
    })
    .clone()
}

pub const CELL_CODES: &[&str] = &["Nemeth", "UEB", "CMU", "Vietnam", "Swedish"];

pub type Prefs = Vec<(String, String)>;

pub fn apply_prefs(p: &Prefs) -> Result<(), String> {
    for (k, v) in p {
        crate::engine::api::set_pref(k, v).map_err(|e| format!("set_preference({},{}) failed: {}", k, v, e.text()))?;
    }
    Ok(())
}

pub fn sel<T: Clone + std::fmt::Debug + 'static>(v: &[T]) -> BoxedStrategy<T> {
    proptest::sample::select(v.to_vec()).boxed()
}

/// distinct decimal literals (pairwise non-substrings, same shape) for operand planting
pub fn distinct_literals(n: usize, decimal: bool) -> BoxedStrategy<Vec<String>> {
    // first digits distinct per literal by construction: literal k = "<a><b>.<c><d>" from a permutation
    proptest::collection::vec((1u32..=9, 0u32..=9, 0u32..=9, 1u32..=9), n)
        .prop_map(move |v| {
            let mut out: Vec<String> = vec![];
            let mut used = std::collections::HashSet::new();
            for (k, (a, b, c, d)) in v.into_iter().enumerate() {
                // make integer part unique: 2 digits derived from index and randoms
                let mut ip = (a * 10 + b) % 90 + 10;
                let mut guard = 0;
                while used.contains(&ip) && guard < 100 {
                    ip = (ip - 10 + 7) % 90 + 10;
                    guard += 1;
                }
                used.insert(ip);
                let _ = k;
                if decimal {
                    out.push(format!("{}.{}{}", ip, c, d));
                } else {
                    out.push(format!("{}{}{}", ip, c, d));
                }
            }
            out
        })
        .boxed()
}

// ------------------------------------------------------------------------------------------
// unicode table keys (Rules/**/unicode*.yaml), parsed textually

pub fn unicode_keys(path: &str) -> Vec<char> {
    let Ok(text) = std::fs::read_to_string(path) else { return vec![] };
    let re = regex::Regex::new(r#"^\s*-\s*"((?:[^"\\]|\\.)*)"\s*:"#).unwrap();
    let mut out = vec![];
    for line in text.lines() {
        if let Some(c) = re.captures(line) {
            let key = unescape_yaml(&c[1]);
            let chars: Vec<char> = key.chars().collect();
            if chars.len() == 1 {
                out.push(chars[0]);
            } else if chars.len() == 3 && chars[1] == '-' && chars[0] < chars[2] {
                let (a, b) = (chars[0] as u32, chars[2] as u32);
                if b - a < 2000 {
                    for cp in a..=b {
                        if let Some(ch) = char::from_u32(cp) {
                            out.push(ch);
                        }
                    }
                }
            }
        }
    }
    out.sort();
    out.dedup();
    out
}

fn unescape_yaml(s: &str) -> String {
    let mut o = String::new();
    let mut it = s.chars().peekable();
    while let Some(c) = it.next() {
        if c != '\\' {
            o.push(c);
            continue;
        }
        match it.next() {
            Some('u') => {
                let hex: String = it.by_ref().take(4).collect();
                if let Some(ch) = u32::from_str_radix(&hex, 16).ok().and_then(char::from_u32) {
                    o.push(ch);
                }
            }
            Some('U') => {
                let hex: String = it.by_ref().take(8).collect();
                if let Some(ch) = u32::from_str_radix(&hex, 16).ok().and_then(char::from_u32) {
                    o.push(ch);
                }
            }
            Some('x') => {
                let hex: String = it.by_ref().take(2).collect();
                if let Some(ch) = u32::from_str_radix(&hex, 16).ok().and_then(char::from_u32) {
                    o.push(ch);
                }
            }
            Some('n') => o.push('\n'),
            Some('t') => o.push('\t'),
            Some(other) => o.push(other),
            None => {}
        }
    }
    o
}

/// (short-table keys, keys only in the full table) of a language (falls back to its parent directory)
pub fn language_char_pools(lang: &str) -> (Vec<char>, Vec<char>) {
    static CACHE: OnceLock<std::sync::Mutex<std::collections::HashMap<String, (Vec<char>, Vec<char>)>>> = OnceLock::new();
    let cache = CACHE.get_or_init(|| std::sync::Mutex::new(std::collections::HashMap::new()));
    if let Some(v) = cache.lock().unwrap().get(lang) {
        return v.clone();
    }
    let v = language_char_pools_uncached(lang);
    cache.lock().unwrap().insert(lang.to_string(), v.clone());
    v
}

fn language_char_pools_uncached(lang: &str) -> (Vec<char>, Vec<char>) {
    let dir = lang.replace('-', "/");
    let base = format!("/repo/Rules/Languages/{}", dir);
    let parent = format!("/repo/Rules/Languages/{}", lang.split('-').next().unwrap_or("en"));
    let pick = |name: &str| {
        let p = format!("{}/{}", base, name);
        if std::path::Path::new(&p).exists() {
            p
        } else {
            format!("{}/{}", parent, name)
        }
    };
    let short = unicode_keys(&pick("unicode.yaml"));
    let full: Vec<char> = unicode_keys(&pick("unicode-full.yaml")).into_iter().filter(|c| !short.contains(c)).collect();
    (short, full)
}

pub fn braille_char_pools(code: &str) -> (Vec<char>, Vec<char>) {
    static CACHE: OnceLock<std::sync::Mutex<std::collections::HashMap<String, (Vec<char>, Vec<char>)>>> = OnceLock::new();
    let cache = CACHE.get_or_init(|| std::sync::Mutex::new(std::collections::HashMap::new()));
    if let Some(v) = cache.lock().unwrap().get(code) {
        return v.clone();
    }
    let v = braille_char_pools_uncached(code);
    cache.lock().unwrap().insert(code.to_string(), v.clone());
    v
}

fn braille_char_pools_uncached(code: &str) -> (Vec<char>, Vec<char>) {
    let base = format!("/repo/Rules/Braille/{}", code);
    let short = unicode_keys(&format!("{}/unicode.yaml", base));
    let full: Vec<char> = unicode_keys(&format!("{}/unicode-full.yaml", base)).into_iter().filter(|c| !short.contains(c)).collect();
    (short, full)
}

// ------------------------------------------------------------------------------------------
// words of the definition files (Rules/definitions.yaml, Rules/Languages/*/definitions.yaml, Rules/Braille/*/definitions.yaml)

#[derive(Debug, Clone)]
pub struct DefWord {
    pub file: String,
    pub set: String,
    pub word: String,
    /// the set is defined by only some of the files of its kind (languages / braille codes): what an earlier
    /// configuration loaded can only show through such sets
    pub rare: bool,
}

/// every short string entry (set member or map key) of every definitions.yaml under the rules directory
pub fn definition_words() -> &'static Vec<DefWord> {
    static W: OnceLock<Vec<DefWord>> = OnceLock::new();
    W.get_or_init(|| {
        let mut files: Vec<(String, String)> = vec![("root".to_string(), "/repo/Rules/definitions.yaml".to_string())];
        for (kind, base) in [("lang", "/repo/Rules/Languages"), ("braille", "/repo/Rules/Braille")] {
            let mut dirs: Vec<_> = std::fs::read_dir(base).map(|r| r.filter_map(|e| e.ok()).collect()).unwrap_or_else(|_| vec![]);
            dirs.sort_by_key(|d| d.file_name());
            for d in dirs {
                let p = d.path().join("definitions.yaml");
                if p.is_file() && d.file_name() != "zz" {
                    files.push((kind.to_string(), p.display().to_string()));
                }
            }
        }
        let mut out: Vec<(String, DefWord)> = vec![];
        let mut defined_in: BTreeMap<(String, String), usize> = BTreeMap::new();
        let mut files_of_kind: BTreeMap<String, usize> = BTreeMap::new();
        for (kind, path) in &files {
            let Ok(text) = std::fs::read_to_string(path) else { continue };
            let Ok(docs) = yaml_rust::YamlLoader::load_from_str(&text) else { continue };
            *files_of_kind.entry(kind.clone()).or_default() += 1;
            let Some(items) = docs.first().and_then(|d| d.as_vec()) else { continue };
            for item in items {
                let Some(h) = item.as_hash() else { continue };
                for (k, v) in h {
                    let Some(set) = k.as_str() else { continue };
                    if set == "include" {
                        continue;
                    }
                    let mut words: Vec<String> = vec![];
                    if let Some(a) = v.as_vec() {
                        words.extend(a.iter().filter_map(|x| x.as_str().map(|s| s.to_string())));
                    } else if let Some(m) = v.as_hash() {
                        words.extend(m.keys().filter_map(|x| x.as_str().map(|s| s.to_string())));
                    }
                    *defined_in.entry((kind.clone(), set.to_string())).or_default() += 1;
                    for w in words {
                        let n = w.chars().count();
                        if n >= 1 && n <= 12 && !w.chars().any(|c| c.is_control()) {
                            out.push((kind.clone(), DefWord { file: path.clone(), set: set.to_string(), word: w, rare: false }));
                        }
                    }
                }
            }
        }
        out.into_iter()
            .map(|(kind, mut w)| {
                let n = defined_in.get(&(kind.clone(), w.set.clone())).copied().unwrap_or(0);
                w.rare = kind != "root" && n * 2 <= files_of_kind.get(&kind).copied().unwrap_or(0);
                w
            })
            .collect()
    })
}

/// an operand made of a definition word: as one token, or spelled as single-letter identifiers (half of the picks come
/// from the sets that only some languages / codes define)
pub fn definition_operand() -> BoxedStrategy<MNode> {
    let all = definition_words();
    let rare: Vec<DefWord> = all.iter().filter(|w| w.rare).cloned().collect();
    if all.is_empty() {
        return Just(MNode::mi("x")).boxed();
    }
    // choose the set first (uniformly), then a member: a three-word set is then as likely as a three-hundred-word one
    fn by_set(words: &[DefWord]) -> Vec<Vec<String>> {
        let mut m: BTreeMap<(String, String), Vec<String>> = BTreeMap::new();
        for w in words {
            m.entry((w.file.clone(), w.set.clone())).or_default().push(w.word.clone());
        }
        m.into_values().collect()
    }
    let pools = [by_set(all), if rare.is_empty() { by_set(all) } else { by_set(&rare) }];
    (0..2usize, any::<u16>(), any::<u16>(), 0..4u8)
        .prop_map(move |(pool, s, w, form)| {
            let sets = &pools[pool];
            let set = &sets[(s as usize * sets.len()) >> 16];
            let word = &set[(w as usize * set.len()) >> 16];
            match form {
                0 => MNode::mi(word),
                1 => MNode::mtext(word),
                _ => {
                    let letters: Vec<MNode> = word.chars().map(|c| if c.is_ascii_digit() { MNode::mn(&c.to_string()) } else { MNode::mi(&c.to_string()) }).collect();
                    if letters.len() == 1 {
                        letters.into_iter().next().unwrap()
                    } else {
                        MNode::row(letters)
                    }
                }
            }
        })
        .boxed()
}
