//! Textbook expressions with a distinct literal planted at every operand position (C04, C06, C13, C19, C20).
#![allow(dead_code)]

use crate::gen::*;
use proptest::prelude::*;
use serde::{Deserialize, Serialize};

pub const HOLE: &str = "@";

#[derive(Clone, Debug, Serialize, Deserialize)]
pub struct Planted {
    /// tree whose operands are literals (decimal mark = '.')
    pub tree: MNode,
    /// the literals in document order, '.' as decimal mark
    pub literals: Vec<String>,
}

/// skeleton with holes -> planted tree (k-th hole gets k-th literal; `dup` makes two holes share a literal)
pub fn plant(mut skeleton: MNode, lits: Vec<String>, dup: Option<(u8, u8)>, idents: &[String]) -> Planted {
    let mut holes = 0usize;
    skeleton.walk(&mut |n| {
        if n.tag == "mn" && n.txt() == HOLE {
            holes += 1;
        }
    });
    let mut assigned: Vec<String> = (0..holes).map(|i| lits[i % lits.len()].clone()).collect();
    if let Some((a, b)) = dup {
        if holes >= 2 {
            let (a, b) = ((a as usize * holes) >> 8, (b as usize * holes) >> 8);
            if a != b {
                assigned[b] = assigned[a].clone();
            }
        }
    }
    // a share of the holes becomes identifiers (only numbers are asserted)
    let mut k = 0usize;
    let mut literals = vec![];
    skeleton.walk_mut(&mut |n| {
        if n.tag == "mn" && n.txt() == HOLE {
            if !idents.is_empty() && k < idents.len() && !idents[k].is_empty() {
                n.tag = "mi".to_string();
                n.text = Some(idents[k].clone());
            } else {
                n.text = Some(assigned[k].clone());
                literals.push(assigned[k].clone());
            }
            k += 1;
        }
    });
    Planted { tree: MNode::math(vec![skeleton]), literals }
}

/// planted textbook expressions; `decimal` literals look like 37.25, integers like 3725
pub fn planted_textbook(decimal: bool, ident_share: f64, cfg: TexCfg) -> BoxedStrategy<Planted> {
    planted_textbook_with(decimal, ident_share, cfg, false)
}

/// `mixed`: one operand in thirteen is a mixed number, a whole part directly followed by a fraction (three literals)
pub fn planted_textbook_with(decimal: bool, ident_share: f64, cfg: TexCfg, mixed: bool) -> BoxedStrategy<Planted> {
    let hole = if mixed {
        prop_oneof![
            12 => Just(MNode::mn(HOLE)),
            1 => Just(MNode::row(vec![MNode::mn(HOLE), MNode::el("mfrac", vec![MNode::mn(HOLE), MNode::mn(HOLE)])])),
        ]
        .boxed()
    } else {
        Just(MNode::mn(HOLE)).boxed()
    };
    let ident = proptest::option::weighted(ident_share, prop_oneof![4 => one_char_of("abcxyzuvwkmnt"), 1 => one_char_of("ABCXYZ"), 1 => one_char_of("αβγθλ")]).prop_map(|o| o.unwrap_or_default());
    (textbook(hole, cfg), distinct_literals(24, decimal), proptest::option::weighted(0.1, (any::<u8>(), any::<u8>())), proptest::collection::vec(ident, 24))
        .prop_map(|(sk, lits, dup, idents)| plant(sk, lits, dup, &idents))
        .prop_filter("at least one literal", |p| !p.literals.is_empty())
        .boxed()
}

/// rewrite the literals of a planted tree with another decimal mark
pub fn with_decimal_mark(p: &Planted, mark: &str) -> (MNode, Vec<String>) {
    let mut t = p.tree.clone();
    let lits: Vec<String> = p.literals.iter().map(|l| l.replace('.', mark)).collect();
    let set: std::collections::HashSet<&String> = p.literals.iter().collect();
    t.walk_mut(&mut |n| {
        if n.tag == "mn" {
            if let Some(tx) = &n.text {
                if set.contains(tx) {
                    n.text = Some(tx.replace('.', mark));
                }
            }
        }
    });
    (t, lits)
}

/// number of occurrences of `lit` in `s` as a maximal run of digits / marks
pub fn count_maximal(s: &str, lit: &str) -> usize {
    let is_part = |c: char| c.is_ascii_digit() || c == '.' || c == ',';
    let chars: Vec<char> = s.chars().collect();
    let l: Vec<char> = lit.chars().collect();
    let mut count = 0;
    let mut i = 0;
    while i + l.len() <= chars.len() {
        if chars[i..i + l.len()] == l[..] {
            let before_ok = i == 0 || !is_part(chars[i - 1]);
            let after = i + l.len();
            // a pause comma / sentence period directly after the literal is not part of it when followed by a non-digit
            let after_ok = after == chars.len() || !chars[after].is_ascii_digit() && !((chars[after] == '.' || chars[after] == ',') && after + 1 < chars.len() && chars[after + 1].is_ascii_digit());
            if before_ok && after_ok {
                count += 1;
                i += l.len();
                continue;
            }
        }
        i += 1;
    }
    count
}

/// nesting depth of the deepest literal below 2-D elements
pub fn literal_depth(n: &MNode) -> usize {
    fn rec(n: &MNode, d: usize, best: &mut usize) {
        let two_d = ["mfrac", "msup", "msub", "msubsup", "msqrt", "mroot", "munder", "mover", "munderover", "mtd", "menclose"].contains(&n.tag.as_str());
        let d2 = if two_d { d + 1 } else { d };
        if n.tag == "mn" {
            *best = (*best).max(d2);
        }
        for k in &n.kids {
            rec(k, d2, best);
        }
    }
    let mut b = 0;
    rec(n, 0, &mut b);
    b
}

pub fn position_kinds(n: &MNode) -> Vec<String> {
    let mut v = vec![];
    fn rec(n: &MNode, parent: &str, idx: usize, v: &mut Vec<String>) {
        if n.tag == "mn" {
            let kind = match (parent, idx) {
                ("mfrac", 0) => "numerator",
                ("mfrac", _) => "denominator",
                ("msup", 1) | ("msubsup", 2) => "exponent",
                ("msub", 1) | ("msubsup", 1) => "index",
                ("msqrt", _) | ("mroot", 0) => "radicand",
                ("mroot", 1) => "root-index",
                ("munder", 1) | ("mover", 1) | ("munderover", 1) | ("munderover", 2) => "limit",
                ("mtd", _) => "cell",
                _ => "row",
            };
            v.push(kind.to_string());
        }
        for (i, k) in n.kids.iter().enumerate() {
            rec(k, &n.tag, i, v);
        }
    }
    rec(n, "", 0, &mut v);
    v.sort();
    v.dedup();
    v
}
