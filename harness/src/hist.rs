//! G-hist: API call histories (Op), their generators and the interpreter (DESIGN.md section 2).
#![allow(dead_code)]

use crate::engine::*;
use crate::gen::*;
use proptest::prelude::*;
use serde::{Deserialize, Serialize};

#[derive(Clone, Debug, PartialEq, Eq, Serialize, Deserialize)]
pub enum IdRef {
    Empty,
    /// k-th id (monotone index into the ids of the current expression)
    Nth(u16),
    /// an id of the previous expression
    Stale(u16),
    Literal(String),
}

#[derive(Clone, Debug, PartialEq, Eq, Serialize, Deserialize)]
pub enum Op {
    SetRulesDir(String),
    SetPref(String, String),
    GetPref(String),
    SetMathml(String),
    Speech,
    Overview,
    Braille(IdRef),
    NavBraille,
    NavCmd(String),
    NavKey(usize, bool, bool, bool, bool),
    SetNavNode(IdRef, usize),
    NavMathml,
    NavId,
    BraillePos,
    NodeFromBraillePos(usize),
}

impl Op {
    pub fn kind(&self) -> &'static str {
        match self {
            Op::SetRulesDir(_) => "set_rules_dir",
            Op::SetPref(..) => "set_preference",
            Op::GetPref(_) => "get_preference",
            Op::SetMathml(_) => "set_mathml",
            Op::Speech => "get_spoken_text",
            Op::Overview => "get_overview_text",
            Op::Braille(_) => "get_braille",
            Op::NavBraille => "get_navigation_braille",
            Op::NavCmd(_) => "do_navigate_command",
            Op::NavKey(..) => "do_navigate_keypress",
            Op::SetNavNode(..) => "set_navigation_node",
            Op::NavMathml => "get_navigation_mathml",
            Op::NavId => "get_navigation_mathml_id",
            Op::BraillePos => "get_braille_position",
            Op::NodeFromBraillePos(_) => "get_navigation_node_from_braille_position",
        }
    }
}

/// result of one op, flattened to a string for comparison / reporting
#[derive(Clone, Debug)]
pub enum OpResult {
    Ok(String),
    Err(String),
    Panic(PanicInfo),
}

impl OpResult {
    pub fn is_ok(&self) -> bool {
        matches!(self, OpResult::Ok(_))
    }
    pub fn is_err(&self) -> bool {
        matches!(self, OpResult::Err(_))
    }
    pub fn ok(&self) -> Option<&str> {
        if let OpResult::Ok(s) = self {
            Some(s)
        } else {
            None
        }
    }
    pub fn short(&self) -> String {
        match self {
            OpResult::Ok(s) => format!("Ok({})", s.chars().take(60).collect::<String>().replace('\n', " ")),
            OpResult::Err(s) => format!("Err({})", s.chars().take(100).collect::<String>().replace('\n', " ")),
            OpResult::Panic(p) => format!("PANIC({})", p.signature()),
        }
    }
}

fn conv<T>(r: Api<T>, f: impl FnOnce(T) -> String) -> OpResult {
    match r {
        Ok(v) => OpResult::Ok(f(v)),
        Err(Fail::Err(e)) => OpResult::Err(e),
        Err(Fail::Panic(p)) => OpResult::Panic(p),
    }
}

/// Interpreter state: ids of the current and the previous expression.
#[derive(Default)]
pub struct Interp {
    pub cur_ids: Vec<String>,
    pub old_ids: Vec<String>,
    pub cur_mathml: Option<String>,
    pub accepted_prefs: Vec<(String, String)>,
    pub rules_dir_set: bool,
}

pub fn ids_of_mathml(s: &str) -> Vec<String> {
    let re = regex::Regex::new(r#" id=['"]([^'"]*)['"]"#).unwrap();
    re.captures_iter(s).map(|c| c[1].to_string()).collect()
}

pub fn pick<'a>(v: &'a [String], k: u16) -> Option<&'a String> {
    if v.is_empty() {
        None
    } else {
        v.get((k as usize * v.len()) >> 16)
    }
}

impl Interp {
    pub fn resolve(&self, r: &IdRef) -> String {
        match r {
            IdRef::Empty => String::new(),
            IdRef::Nth(k) => pick(&self.cur_ids, *k).cloned().unwrap_or_else(|| "no-such-id".into()),
            IdRef::Stale(k) => pick(&self.old_ids, *k).cloned().unwrap_or_else(|| "stale-id".into()),
            IdRef::Literal(s) => s.clone(),
        }
    }
    pub fn run(&mut self, op: &Op) -> OpResult {
        match op {
            Op::SetRulesDir(d) => {
                let r = conv(api::set_rules_dir(d), |_| String::new());
                if r.is_ok() {
                    self.rules_dir_set = true;
                }
                r
            }
            Op::SetPref(k, v) => {
                let r = conv(api::set_pref(k, v), |_| String::new());
                if r.is_ok() {
                    self.accepted_prefs.push((k.clone(), v.clone()));
                }
                r
            }
            Op::GetPref(k) => conv(api::get_pref(k), |s| s),
            Op::SetMathml(x) => {
                let r = conv(api::set_mathml(x), |s| s);
                if let OpResult::Ok(s) = &r {
                    self.old_ids = std::mem::take(&mut self.cur_ids);
                    self.cur_ids = ids_of_mathml(s);
                    self.cur_mathml = Some(s.clone());
                }
                r
            }
            Op::Speech => conv(api::speech(), |s| s),
            Op::Overview => conv(api::overview(), |s| s),
            Op::Braille(id) => conv(api::braille(&self.resolve(id)), |s| s),
            Op::NavBraille => conv(api::nav_braille(), |s| s),
            Op::NavCmd(c) => conv(api::nav_cmd(c), |s| s),
            Op::NavKey(k, a, b, c, d) => conv(api::nav_key(*k, *a, *b, *c, *d), |s| s),
            Op::SetNavNode(id, off) => conv(api::set_nav_node(&self.resolve(id), *off), |_| String::new()),
            Op::NavMathml => conv(api::nav_mathml(), |(s, o)| format!("{}@{}", s, o)),
            Op::NavId => conv(api::nav_id(), |(s, o)| format!("{}@{}", s, o)),
            Op::BraillePos => conv(api::braille_pos(), |(s, e)| format!("{},{}", s, e)),
            Op::NodeFromBraillePos(p) => conv(api::node_from_braille_pos(*p), |(s, o)| format!("{}@{}", s, o)),
        }
    }
}

// ------------------------------------------------------------------------------------------
// argument pools

pub const NAV_COMMANDS: &[&str] = &[
    "MovePrevious", "MoveNext", "MoveStart", "MoveEnd", "MoveLineStart", "MoveLineEnd", "MoveCellPrevious", "MoveCellNext", "MoveCellUp", "MoveCellDown", "MoveColumnStart", "MoveColumnEnd", "ZoomIn", "ZoomOut", "ZoomOutAll", "ZoomInAll", "MoveLastLocation", "ReadPrevious", "ReadNext", "ReadCurrent", "ReadCellCurrent", "ReadStart", "ReadEnd", "ReadLineStart", "ReadLineEnd", "DescribePrevious", "DescribeNext", "DescribeCurrent", "WhereAmI", "WhereAmIAll", "ToggleZoomLockUp", "ToggleZoomLockDown", "ToggleSpeakMode", "Exit",
    "SetPlacemarker0", "SetPlacemarker1", "SetPlacemarker2", "SetPlacemarker3", "SetPlacemarker4", "SetPlacemarker5", "SetPlacemarker6", "SetPlacemarker7", "SetPlacemarker8", "SetPlacemarker9",
    "Read0", "Read1", "Read2", "Read3", "Read4", "Read5", "Read6", "Read7", "Read8", "Read9",
    "Describe0", "Describe1", "Describe2", "Describe3", "Describe4", "Describe5", "Describe6", "Describe7", "Describe8", "Describe9",
    "MoveTo0", "MoveTo1", "MoveTo2", "MoveTo3", "MoveTo4", "MoveTo5", "MoveTo6", "MoveTo7", "MoveTo8", "MoveTo9",
];

/// (name, kind, some valid values)
pub fn known_prefs() -> Vec<(&'static str, &'static str, Vec<&'static str>)> {
    vec![
        ("Language", "string", vec!["en", "es", "fi", "id", "sv", "vi", "zh-tw", "en-gb", "Auto", "en-us", "de", "zh"]),
        ("LanguageAuto", "string", vec!["en", "es", "sv"]),
        ("SpeechStyle", "string", vec!["ClearSpeak", "SimpleSpeak"]),
        ("Verbosity", "string", vec!["Terse", "Medium", "Verbose"]),
        ("Impairment", "string", vec!["Blindness", "LowVision", "LearningDisability"]),
        ("MathRate", "number", vec!["100", "80", "150.5", "0", "-5", "1e3"]),
        ("PauseFactor", "number", vec!["100", "0", "250", "50.5"]),
        ("SpeechSound", "string", vec!["None", "Beep"]),
        ("SubjectArea", "string", vec!["General"]),
        ("Chemistry", "string", vec!["SpellOut", "Off", "AsCompound"]),
        ("SpeechOverrides_CapitalLetters", "string", vec!["", "cap", "capital"]),
        ("ClearSpeak_Fractions", "string", vec!["Auto", "Over", "Ordinal", "General", "EndFrac", "Per"]),
        ("ClearSpeak_Exponents", "string", vec!["Auto", "Ordinal", "OrdinalPower", "AfterPower"]),
        ("ClearSpeak_Roots", "string", vec!["Auto", "PosNegSqRoot", "RootEnd"]),
        ("ClearSpeak_Paren", "string", vec!["Auto", "Speak", "Silent", "CoordPoint", "Interval", "SpeakNestingLevel"]),
        ("ClearSpeak_ImpliedTimes", "string", vec!["Auto", "MoreImpliedTimes", "None"]),
        ("ClearSpeak_Matrix", "string", vec!["Auto", "SpeakColNum", "EndMatrix", "Vector"]),
        ("ClearSpeak_AbsoluteValue", "string", vec!["Auto", "AbsEnd", "Cardinality", "Determinant"]),
        ("ClearSpeak_CapitalLetters", "string", vec!["Auto"]),
        ("ClearSpeak_Functions", "string", vec!["Auto", "None"]),
        ("ClearSpeak_Trig", "string", vec!["Auto", "TrigInverse", "ArcTrig"]),
        ("ClearSpeak_Log", "string", vec!["Auto", "LnAsNaturalLog"]),
        ("ClearSpeak_Sets", "string", vec!["Auto", "woAll", "SilentBracket"]),
        ("ClearSpeak_MultSymbolX", "string", vec!["Auto", "By", "Cross"]),
        ("ClearSpeak_MultSymbolDot", "string", vec!["Auto", "Dot"]),
        ("ClearSpeak_VerticalLine", "string", vec!["Auto", "SuchThat", "Divides", "Given"]),
        ("ClearSpeak_Prime", "string", vec!["Auto", "Angle", "Length"]),
        ("ClearSpeak_Bar", "string", vec!["Auto", "Bar", "Conjugate", "Mean"]),
        ("ClearSpeak_Ellipses", "string", vec!["Auto", "AndSoOn"]),
        ("ClearSpeak_MultiLineLabel", "string", vec!["Auto", "Case", "Equation", "Line", "None", "Row", "Step"]),
        ("MathSpeak", "string", vec!["Verbose", "Brief", "SuperBrief"]),
        ("NavMode", "string", vec!["Enhanced", "Simple", "Character"]),
        ("ResetNavMode", "boolean", vec!["true", "false"]),
        ("Overview", "boolean", vec!["true", "false"]),
        ("ResetOverview", "boolean", vec!["true", "false"]),
        ("NavVerbosity", "string", vec!["Terse", "Medium", "Full"]),
        ("AutoZoomOut", "boolean", vec!["true", "false"]),
        ("CopyAs", "string", vec!["MathML", "LaTeX", "ASCIIMath"]),
        ("BrailleCode", "string", vec!["Nemeth", "UEB", "CMU", "Vietnam", "LaTeX", "ASCIIMath", "Swedish", "ASCIIMath-fi"]),
        ("BrailleNavHighlight", "string", vec!["Off", "FirstChar", "EndPoints", "All"]),
        ("UseSpacesAroundAllOperators", "boolean", vec!["true", "false"]),
        ("UEB_StartMode", "string", vec!["Grade1", "Grade2"]),
        ("UEB_UseSpacesAroundAllOperators", "boolean", vec!["true", "false"]),
        ("UEB_DoubleStruck", "string", vec!["⠈"]),
        ("UEB_GreekVariant", "string", vec!["⠨", "⠸"]),
        ("Vietnam_UseDropNumbers", "boolean", vec!["true", "false"]),
        ("Vietnam_GreekVariant", "string", vec!["⠸", "⠨"]),
        ("LaTeX_UseShortName", "boolean", vec!["true", "false"]),
        ("DecimalSeparators", "string", vec![".", ",", ".,"]),
        ("BlockSeparators", "string", vec![", \u{a0}\u{202f}", ". \u{a0}\u{202f}", "'", " "]),
        ("DecimalSeparator", "string", vec!["Auto", ".", ",", "Custom"]),
        ("TTS", "string", vec!["None", "none", "SSML", "SAPI5", "ssml"]),
        ("Pitch", "number", vec!["0", "1.0", "-3", "10"]),
        ("Rate", "number", vec!["180", "100", "300.5"]),
        ("Volume", "number", vec!["100", "50", "0"]),
        ("Voice", "string", vec!["none", "Zira"]),
        ("Gender", "string", vec!["none", "female"]),
        ("Bookmark", "boolean", vec!["true", "false"]),
        ("CapitalLetters_UseWord", "boolean", vec!["true", "false"]),
        ("CapitalLetters_Pitch", "number", vec!["0", "5", "-2.5"]),
        ("CapitalLetters_Beep", "boolean", vec!["true", "false"]),
        ("IntentErrorRecovery", "string", vec!["IgnoreIntent", "Error"]),
        ("CheckRuleFiles", "string", vec!["Prefs", "All", "None"]),
    ]
}

pub fn pref_name() -> BoxedStrategy<String> {
    let names: Vec<String> = known_prefs().iter().map(|p| p.0.to_string()).collect();
    prop_oneof![
        12 => proptest::sample::select(names.clone()),
        1 => proptest::sample::select(names.clone()).prop_map(|s| s.to_lowercase()),
        1 => proptest::sample::select(names).prop_map(|s| format!("{}x", s)),
        1 => "[A-Za-z_]{1,12}",
        1 => Just(String::new()),
    ]
    .boxed()
}

pub fn hostile_value() -> BoxedStrategy<String> {
    prop_oneof![
        3 => sel(&["true", "false", "True", "FALSE", "yes", "no", "maybe", "", " ", "0", "1", "-1", "1e309", "NaN", "inf", "-inf", "1,5", "12abc", "Auto", "None", "null", "~", "[]", "{}", "⠈", "en", "xx", "e", "english", "en-", "-gb", "en-gb-oed", "zz", "ClearSpeak", "Nope", "../..", "/etc/passwd", "UEB", "nemeth", "'", "\"", "<", "&amp;"]).prop_map(|s| s.to_string()),
        1 => "[ -~]{0,12}",
        1 => "\\PC{0,6}",
        1 => Just("x".repeat(5000)),
    ]
    .boxed()
}

/// a (name, value) pair: valid most of the time
pub fn pref_pair() -> BoxedStrategy<(String, String)> {
    let kp = known_prefs();
    let valid: Vec<(String, String)> = kp.iter().flat_map(|(n, _, vs)| vs.iter().map(move |v| (n.to_string(), v.to_string()))).collect();
    prop_oneof![
        6 => proptest::sample::select(valid),
        3 => (pref_name(), hostile_value()),
    ]
    .boxed()
}

pub fn small_valid_math() -> BoxedStrategy<MNode> {
    let operand = prop_oneof![3 => tok_ident(), 2 => "[0-9]{1,3}(\\.[0-9]{1,2})?".prop_map(|s| MNode::mn(&s))].boxed();
    textbook(operand, TexCfg { depth: 3, size: 12, tables: true, text: true }).prop_map(|n| MNode::math(vec![n])).boxed()
}

/// G-wild: structure with arity / vocabulary deliberately broken, and raw strings
pub fn wild_mathml_string() -> BoxedStrategy<String> {
    let base = math_of(structure(token(&TokCfg::everything()), StructCfg { depth: 3, size: 16, ..StructCfg::full() }));
    let mutated = (base.clone(), any::<u16>(), 0..8u8, any::<u16>()).prop_map(|(mut t, pos, kind, aux)| {
        // pick a node by preorder index
        let n = t.count_nodes();
        let target = (pos as usize * n) >> 16;
        let mut i = 0usize;
        t.walk_mut(&mut |node| {
            if i == target {
                match kind {
                    0 => {
                        if !node.kids.is_empty() {
                            let k = (aux as usize * node.kids.len()) >> 16;
                            node.kids.remove(k);
                        }
                    }
                    1 => {
                        if !node.kids.is_empty() {
                            let k = (aux as usize * node.kids.len()) >> 16;
                            let c = node.kids[k].clone();
                            node.kids.push(c);
                        }
                    }
                    2 => node.tag = ["foo", "div", "mfoo", "svg", "apply", "annotation-xml", "mprescripts", "none", "mtr", "mtd", "math"][(aux as usize * 11) >> 16].to_string(),
                    3 => {
                        if !node.is_token() {
                            node.kids.insert(0, MNode { tag: "#text".into(), attrs: vec![], kids: vec![], text: Some("stray text".into()) });
                        }
                    }
                    4 => {
                        if node.is_token() {
                            node.kids.push(MNode::el("mglyph", vec![]).attr("alt", "g"));
                            node.kids.push(MNode::el("span", vec![MNode::leaf("b", "html")]));
                        }
                    }
                    5 => node.kids.clear(),
                    6 => {
                        node.attrs.push(("intent".into(), ["f($x)", ":prefix", "a(b", "$", "_(x,", "1+", "f(:p)($a)"][(aux as usize * 7) >> 16].to_string()));
                    }
                    _ => {
                        node.tag = ["mmultiscripts", "msubsup", "mfrac", "mroot", "mtable", "mover"][(aux as usize * 6) >> 16].to_string();
                        node.text = None;
                    }
                }
            }
            i += 1;
        });
        t.to_xml()
    });
    let truncated = (base.clone(), any::<u16>()).prop_map(|(t, k)| {
        let s = t.to_xml();
        let cut = (k as usize * s.len()) >> 16;
        let mut c = cut;
        while !s.is_char_boundary(c) {
            c -= 1;
        }
        s[..c].to_string()
    });
    let raw = prop_oneof![
        sel(&["", " ", "<math/>", "<math></math>", "<math> </math>", "x+1", "<", "<math>", "</math>", "<math><mi>x</mi>", "<html><body/></html>", "<m:math xmlns:m='http://www.w3.org/1998/Math/MathML'><m:mi>x</m:mi></m:math>", "<math><mi>&nosuch;</mi></math>", "<math><mi>&amp;</mi></math>", "<math><mi>&#x0;</mi></math>", "<math><mi>&#xD800;</mi></math>", "<?xml version='1.0'?><math><mi>x</mi></math>", "<!-- c --><math><mi>x</mi></math><!-- d -->", "<math><mi>x</mi></math><math><mi>y</mi></math>", "<math><![CDATA[x]]></math>", "<math><mi><![CDATA[x]]></mi></math>", "<math xmlns='http://www.w3.org/1998/Math/MathML' display='block'><mi>x</mi></math>", "<mi>x</mi>", "<mrow><mi>x</mi><mo>+</mo></mrow>", "<math><mtable><mi>x</mi></mtable></math>", "<math><mtr><mtd><mi>x</mi></mtd></mtr></math>", "<math><mtd><mi>x</mi></mtd></math>", "<math><mmultiscripts/></math>", "<math><mmultiscripts><mprescripts/></mmultiscripts></math>", "<math><none/></math>", "<math><mprescripts/></math>", "<math><semantics/></math>", "<math><semantics><annotation>x</annotation></semantics></math>", "<math><annotation-xml><mi>x</mi></annotation-xml></math>", "<math><mfrac><mi>x</mi></mfrac></math>", "<math><msqrt/></math>", "<math><mroot><mi>x</mi></mroot></math>", "<math><mover><mi>x</mi></mover></math>", "<math><mlongdiv><mn>1</mn></mlongdiv></math>", "<math><mstack><mn>1</mn><msline/><mn>2</mn></mstack></math>", "<math><maction><mi>x</mi><mi>y</mi></maction></math>", "<math><mglyph alt='x'/></math>", "<math><ms>a</ms></math>", "<math>text only</math>", "<math><mi>x</mi>tail</math>", "<math><mi intent=''>x</mi></math>", "<math><mrow intent='f($a,$a)'><mi arg='a'>x</mi></mrow></math>"]).prop_map(|s| s.to_string()),
        "[ -~]{0,40}",
        "\\PC{0,20}",
    ];
    prop_oneof![3 => mutated, 2 => truncated, 2 => raw, 3 => base.prop_map(|t| t.to_xml())].boxed()
}

pub fn id_ref() -> BoxedStrategy<IdRef> {
    prop_oneof![
        2 => Just(IdRef::Empty),
        6 => any::<u16>().prop_map(IdRef::Nth),
        2 => any::<u16>().prop_map(IdRef::Stale),
        2 => sel(&["nope", "M0-0", " ", "id with space", "'", "\u{e000}", "0", "<id>"]).prop_map(|s| IdRef::Literal(s.to_string())),
    ]
    .boxed()
}

pub fn position() -> BoxedStrategy<usize> {
    prop_oneof![6 => 0usize..40, 1 => 40usize..2000, 1 => Just(usize::MAX), 1 => Just(usize::MAX / 2), 1 => Just(u32::MAX as usize)].boxed()
}

pub fn nav_cmd_name() -> BoxedStrategy<String> {
    prop_oneof![
        20 => sel(NAV_COMMANDS).prop_map(|s| s.to_string()),
        1 => sel(&["", "movenext", "MoveNext ", "Move", "SetPlacemarker10", "MoveTo-1", "Exit2", "ZoomInn"]).prop_map(|s| s.to_string()),
        1 => "[A-Za-z0-9]{1,14}",
    ]
    .boxed()
}

pub fn nav_key() -> BoxedStrategy<Op> {
    let keys = prop_oneof![
        8 => sel(&[37usize, 38, 39, 40, 13, 32, 36, 35, 8, 27, 48, 49, 50, 57, 188, 190, 9]),
        2 => 0usize..256,
        1 => sel(&[256usize, 1000, usize::MAX]),
    ];
    (keys, any::<bool>(), any::<bool>(), any::<bool>(), any::<bool>()).prop_map(|(k, a, b, c, d)| Op::NavKey(k, a, b, c, d)).boxed()
}

/// one op with hostile arguments over all entry points
pub fn any_op() -> BoxedStrategy<Op> {
    prop_oneof![
        1 => sel(&["/repo/Rules", "", "/nonexistent/dir", "/repo/Rules/prefs.yaml", "/repo", "/repo/Rules/Languages/..", "relative/path"]).prop_map(|s| Op::SetRulesDir(s.to_string())),
        8 => pref_pair().prop_map(|(k, v)| Op::SetPref(k, v)),
        3 => pref_name().prop_map(Op::GetPref),
        5 => small_valid_math().prop_map(|m| Op::SetMathml(m.to_xml())),
        6 => wild_mathml_string().prop_map(Op::SetMathml),
        4 => Just(Op::Speech),
        2 => Just(Op::Overview),
        4 => id_ref().prop_map(Op::Braille),
        2 => Just(Op::NavBraille),
        8 => nav_cmd_name().prop_map(Op::NavCmd),
        4 => nav_key(),
        3 => (id_ref(), prop_oneof![4 => Just(0usize), 2 => 0usize..6, 1 => Just(usize::MAX)]).prop_map(|(i, o)| Op::SetNavNode(i, o)),
        2 => Just(Op::NavMathml),
        2 => Just(Op::NavId),
        2 => Just(Op::BraillePos),
        3 => position().prop_map(Op::NodeFromBraillePos),
    ]
    .boxed()
}
