//! C09 — every node gets a unique id and author ids are kept.
use crate::engine::*;
use crate::gen::*;
use crate::hist::NAV_COMMANDS;
use crate::norm::norm_chars;
use proptest::prelude::*;
use serde::{Deserialize, Serialize};
use serde_json::Value;
use std::collections::{HashMap, HashSet};

#[derive(Clone, Debug, Serialize, Deserialize)]
pub struct Case {
    pub tree: MNode,
    pub nav: Vec<String>,
    pub positions: Vec<usize>,
    pub tts: String,
}

pub struct C09;

const TWO_D: &[&str] = &["mfrac", "msqrt", "mroot", "msub", "msup", "msubsup", "munder", "mover", "munderover", "mtable", "mtr", "mtd", "menclose", "mmultiscripts"];

pub fn plant_ids(mut t: MNode, mode: u8, picks: Vec<u16>, style: u8, dup: bool) -> MNode {
    let n = t.count_nodes();
    let mut chosen: HashSet<usize> = HashSet::new();
    match mode % 3 {
        0 => {}
        1 => {
            for p in picks.iter().take(4) {
                chosen.insert((*p as usize * n) >> 16);
            }
        }
        _ => {
            for i in 0..n {
                chosen.insert(i);
            }
        }
    }
    let mut i = 0;
    let mut k = 0;
    t.walk_mut(&mut |node| {
        if chosen.contains(&i) && node.tag != "#text" && node.get_attr("id").is_none() {
            let id = match style % 4 {
                0 => format!("a{}", k),
                1 => format!("id with space {}", k),
                2 => format!("M0abc123-{}", k),
                _ => format!("x&y<{}>'\"", k),
            };
            node.attrs.push(("id".to_string(), id));
            k += 1;
        }
        i += 1;
    });
    if dup && k >= 2 {
        // duplicate author ids: the second id-bearing node repeats the first id
        let mut first: Option<String> = None;
        let mut done = false;
        t.walk_mut(&mut |node| {
            if done {
                return;
            }
            if let Some(pos) = node.attrs.iter().position(|(a, _)| a == "id") {
                match &first {
                    None => first = Some(node.attrs[pos].1.clone()),
                    Some(f) => {
                        node.attrs[pos].1 = f.clone();
                        done = true;
                    }
                }
            }
        });
    }
    t
}

fn has_duplicate_author_ids(t: &MNode) -> bool {
    let ids = t.all_ids();
    let set: HashSet<&String> = ids.iter().collect();
    set.len() != ids.len()
}

pub fn check_static(input: &MNode, out: &MNode) -> Vec<(String, String)> {
    let mut v = vec![];
    // (1) every element has an id
    let mut missing = vec![];
    out.walk(&mut |n| {
        if n.tag != "#text" && n.get_attr("id").is_none() {
            missing.push(n.tag.clone());
        }
    });
    if !missing.is_empty() {
        v.push(("element-without-id".to_string(), format!("elements without id: {:?}", missing)));
    }
    // (2) distinct
    let ids = out.all_ids();
    let mut seen = HashSet::new();
    for i in &ids {
        if !seen.insert(i.clone()) {
            let sig = if has_duplicate_author_ids(input) { "duplicate-id:author-duplicates-passed-through" } else { "duplicate-id" };
            v.push((sig.to_string(), format!("id {:?} occurs more than once in the returned MathML", i)));
            break;
        }
    }
    if has_duplicate_author_ids(input) {
        return v; // migration is not well defined when the author's ids are ambiguous
    }
    // (3)/(4) author ids
    let mut out_by_id: HashMap<String, &MNode> = HashMap::new();
    out.walk(&mut |n| {
        if let Some(i) = n.get_attr("id") {
            out_by_id.insert(i.to_string(), n);
        }
    });
    // presentation tokens only: what sits inside <annotation(-xml)> is not displayed (and is stored in an attribute)
    fn pres_tokens<'a>(n: &'a MNode, v: &mut Vec<&'a MNode>) {
        if n.tag.starts_with("annotation") || n.tag == "mphantom" {
            return;
        }
        if TOKENS.contains(&n.tag.as_str()) {
            v.push(n);
            return;
        }
        for k in &n.kids {
            pres_tokens(k, v);
        }
    }
    let mut in_tokens: Vec<&MNode> = vec![];
    pres_tokens(input, &mut in_tokens);
    let mut out_tokens: Vec<&MNode> = vec![];
    pres_tokens(out, &mut out_tokens);
    // fences and separators that <mfenced> implies become tokens of their own
    let mut implied: Vec<String> = vec![];
    input.walk(&mut |n| {
        if n.tag == "mfenced" {
            implied.push(norm_chars(n.get_attr("open").unwrap_or("(")));
            implied.push(norm_chars(n.get_attr("close").unwrap_or(")")));
            for c in n.get_attr("separators").unwrap_or(",").chars() {
                implied.push(norm_chars(&c.to_string()));
            }
        }
    });
    let in_token_ids: HashSet<&str> = in_tokens.iter().filter_map(|t| t.get_attr("id")).collect();
    let visible = |n: &MNode| -> String {
        let mut s = String::new();
        n.walk(&mut |k| {
            if k.is_token() {
                s.push_str(&norm_chars(k.txt()));
            }
        });
        s
    };
    let mut under_annotation: HashSet<String> = HashSet::new();
    let mut under_phantom: HashSet<String> = HashSet::new();
    input.walk(&mut |n| {
        if n.tag.starts_with("annotation") {
            under_annotation.extend(n.all_ids());
        }
        if n.tag == "mphantom" {
            under_phantom.extend(n.all_ids());
        }
    });
    input.walk(&mut |n| {
        let Some(id) = n.get_attr("id") else { return };
        if n.is_token() {
            if !in_token_ids.contains(id) {
                return; // not a presentation token
            }
            let t = norm_chars(n.txt());
            if t.is_empty() {
                return;
            }
            if let Some(o) = out_by_id.get(id) {
                // (3) no migration: the element carrying the id shows the token's text
                if !visible(o).contains(&t) {
                    v.push(("author-id-migrated:token".to_string(), format!("author id {:?} was on <{}>{}</{}> but now sits on <{}> showing {:?}", id, n.tag, n.txt(), n.tag, o.tag, visible(o))));
                }
            }
            // (4) untouched tokens keep their id
            let same_in = in_tokens.iter().filter(|k| norm_chars(k.txt()) == t).count() + implied.iter().filter(|k| **k == t).count();
            let same_out: Vec<&&MNode> = out_tokens.iter().filter(|k| norm_chars(k.txt()) == t).collect();
            if same_in == 1 && same_out.len() == 1 && same_out[0].get_attr("id") != Some(id) {
                v.push(("author-id-lost:token".to_string(), format!("token {:?} had author id {:?}; the only token with that text now has id {:?}", n.txt(), id, same_out[0].get_attr("id"))));
            }
        } else if TWO_D.contains(&n.tag.as_str())
            && !under_annotation.contains(id)
            // an mmultiscripts without (non-empty) scripts is replaced by its base, which then carries the id
            && !(n.tag == "mmultiscripts" && n.kids.iter().skip(1).all(|k| k.tag == "none" || k.tag == "mprescripts" || crate::props::c01::renders_nothing(k)))
        {
            // (4') no element of this kind disappeared or appeared: the author id is still on one of them
            // (displayed elements of the input; elements of the output that MathCAT did not create itself)
            fn count(t: &MNode, tag: &str) -> usize {
                if t.tag.starts_with("annotation") || t.tag == "mphantom" {
                    return 0;
                }
                let own = (t.tag == tag && t.get_attr("data-changed") != Some("added")) as usize;
                own + t.kids.iter().map(|k| count(k, tag)).sum::<usize>()
            }
            let count = |t: &MNode| count(t, &n.tag);
            if under_phantom.contains(id) {
                return;
            }
            // (an mmultiscripts whose scripts all render nothing is replaced by its base, and a neighbouring script on an
            // empty base may be rebuilt as a new mmultiscripts: the counts then agree by accident)
            let hollow = n.tag == "mmultiscripts" && n.kids.iter().skip(1).all(|k| k.tag == "none" || k.tag == "mprescripts" || crate::props::c01::renders_nothing(k));
            // (and a script on an empty base is merged with its neighbours into one mmultiscripts, which dismantles them:
            // for such inputs equal counts say nothing)
            if !hollow && !crate::props::c01::has_degenerate(input) && !out_by_id.contains_key(id) && count(input) == count(out) {
                v.push(("author-id-lost:2d".to_string(), format!("author id {:?} was on <{}>; the returned MathML has as many <{}> elements as the input but none carries that id", id, n.tag, n.tag)));
            }
            if let Some(o) = out_by_id.get(id) {
                if o.tag != n.tag && !(n.tag.starts_with("ms") && o.tag.starts_with("ms")) && o.tag != "mmultiscripts" {
                    v.push(("author-id-migrated:2d".to_string(), format!("author id {:?} was on <{}> but now sits on <{}>", id, n.tag, o.tag)));
                }
            }
        }
    });
    v.dedup_by(|a, b| a.0 == b.0);
    v
}

impl Property for C09 {
    type Case = Case;
    fn id(&self) -> &'static str {
        "C09"
    }
    fn strategy(&self, tier: Tier) -> BoxedStrategy<Case> {
        let mut tc = TokCfg::plain();
        tc.text = 2;
        tc.misc = 2;
        let sc = StructCfg { depth: if tier == Tier::Thorough { 5 } else { 4 }, size: 24, wrappers: true, tables: true, multiscripts: true, degenerate: false, mfenced: true, semantics: true };
        let operand = prop_oneof![4 => tok_ident(), 3 => tok_number(), 1 => select_str(ELEMENTS).prop_map(|s| MNode::mi(&s))].boxed();
        let base = prop_oneof![
            2 => math_of(structure(token(&tc), sc)),
            2 => textbook(operand, TexCfg::default()).prop_map(|n| MNode::math(vec![n])),
        ];
        let tree = (base, 0..3u8, proptest::collection::vec(any::<u16>(), 4), 0..4u8, proptest::bool::weighted(0.08)).prop_map(|(t, mode, picks, style, dup)| plant_ids(t, mode, picks, style, dup));
        // navigation steps: any command (moves, zooms, reads, place markers and jumps to them), or "@node:<k>:<offset>" =
        // set_navigation_node(id of the k-th element of the returned MathML, offset), what an AT does after cursor routing
        let step = prop_oneof![
            6 => sel(&NAV_COMMANDS[..17]).prop_map(|s| s.to_string()),
            3 => sel(NAV_COMMANDS).prop_map(|s| s.to_string()),
            2 => (0usize..40, sel(&[0usize, 0, 1, 2, 5, 1000])).prop_map(|(k, off)| format!("@node:{}:{}", k, off)),
        ];
        let nav = proptest::collection::vec(step, 0..8);
        (tree, nav, proptest::collection::vec(0usize..60, 0..4), sel(&["None", "SSML", "SAPI5"])).prop_map(|(tree, nav, positions, tts)| Case { tree, nav, positions, tts: tts.to_string() }).boxed()
    }
    fn eval(&self, case: &Case) -> Outcome {
        for (k, v) in [("Language", "en"), ("TTS", case.tts.as_str()), ("Bookmark", "true"), ("BrailleCode", "Nemeth"), ("BrailleNavHighlight", "EndPoints")] {
            let _ = api::set_pref(k, v);
        }
        let xml = case.tree.to_xml();
        let out = match api::set_mathml(&xml) {
            Ok(s) => s,
            Err(Fail::Err(_)) => return Outcome::reject("set_mathml Err"),
            Err(Fail::Panic(_)) => return Outcome::reject("set_mathml panic (C08)"),
        };
        let Ok(parsed) = parse_xml(&out) else { return Outcome::reject("output unparsable (C02)") };
        let mut viols: Vec<(String, String)> = vec![];
        for (s, d) in check_static(&case.tree, &parsed) {
            viols.push((s, format!("{}\ninput:  {}\noutput: {}", d, xml, out.replace('\n', ""))));
        }
        // known input classes of clean_mathml (shared with C01/C02) name the violation
        if !viols.is_empty() && !viols[0].0.starts_with("duplicate-id:author") {
            // only the input classes whose handling is known to move ids (empty script bases are rebuilt as mmultiscripts; a run of adjacent numbers can lose one, C01)
            let t = if crate::props::c01::has_degenerate(&case.tree) {
                Some("degenerate-child")
            } else if crate::props::c01::has_adjacent_mn(&case.tree) {
                Some("adjacent-mn")
            } else {
                None
            };
            if let Some(t) = t {
                let detail = viols.iter().map(|(s, d)| format!("[{}] {}", s, d)).collect::<Vec<_>>().join("\n");
                viols = vec![(format!("trigger:{}", t), detail)];
            }
        }
        // (5) ids handed out later
        let id_list: Vec<String> = parsed.all_ids();
        let ids: HashSet<String> = id_list.iter().cloned().collect();
        let mut dynamic = 0;
        // the id is everything up to the closing "'/>" (ids may contain quotes); XML escapes in it are undone
        let mark = regex::Regex::new(r#"<(?:mark name|bookmark mark)='(.*?)'/>"#).unwrap();
        let unescape = |s: &str| s.replace("&lt;", "<").replace("&gt;", ">").replace("&apos;", "'").replace("&quot;", "\"").replace("&amp;", "&");
        let check_id = |what: &str, id: &str, viols: &mut Vec<(String, String)>| {
            if !ids.contains(id) {
                viols.push((format!("foreign-id-handed-out:{}", what), format!("{} returned id {:?} which is not in the returned MathML\ninput: {}\noutput: {}", what, id, xml, out.replace('\n', ""))));
            }
        };
        if viols.is_empty() {
            if let Ok(s) = api::speech() {
                for c in mark.captures_iter(&s) {
                    dynamic += 1;
                    if !ids.contains(&c[1]) {
                        check_id("speech-bookmark", &unescape(&c[1]), &mut viols);
                    }
                }
            }
            for c in &case.nav {
                if let Some(rest) = c.strip_prefix("@node:") {
                    let mut it = rest.split(':').filter_map(|x| x.parse::<usize>().ok());
                    let (k, off) = (it.next().unwrap_or(0), it.next().unwrap_or(0));
                    if !id_list.is_empty() {
                        let _ = api::set_nav_node(&id_list[k % id_list.len()], off);
                    }
                } else if let Ok(s) = api::nav_cmd(c) {
                    for m in mark.captures_iter(&s) {
                        if !ids.contains(&m[1]) {
                            check_id("navigation-speech-bookmark", &unescape(&m[1]), &mut viols);
                        }
                    }
                }
                if let Ok((id, _)) = api::nav_id() {
                    dynamic += 1;
                    check_id("get_navigation_mathml_id", &id, &mut viols);
                }
                if !viols.is_empty() {
                    break;
                }
            }
            for p in &case.positions {
                if let Ok((id, _)) = api::node_from_braille_pos(*p) {
                    dynamic += 1;
                    check_id("get_navigation_node_from_braille_position", &id, &mut viols);
                }
            }
        }
        let n_author = case.tree.all_ids().len();
        let restructured = crate::props::c01::classes(&case.tree, &parsed).1;
        let nontrivial = (n_author >= 2 && restructured) || dynamic >= 3;
        let mut o = Outcome::from_violations(viols, nontrivial);
        o.classes.push(format!("author-ids:{}", if n_author == 0 { "none" } else if n_author >= case.tree.count_nodes() - 1 { "all" } else { "some" }));
        o.classes.push(format!("tts:{}", case.tts));
        o
    }
    fn to_json(&self, case: &Case) -> Value {
        let mut v = serde_json::to_value(case).unwrap();
        v["xml"] = Value::String(case.tree.to_xml());
        v
    }
    fn from_json(&self, v: &Value) -> Option<Case> {
        if v.get("tree").is_none() {
            let tree = parse_xml(v["xml"].as_str()?).ok()?;
            return Some(Case { tree, nav: vec![], positions: vec![], tts: "None".into() });
        }
        let mut v = v.clone();
        if let Some(o) = v.as_object_mut() {
            o.remove("xml");
        }
        serde_json::from_value(v).ok()
    }
    fn cases(&self) -> (usize, usize) {
        (12000, 300000)
    }
    fn rule(&self) -> String {
        "cases = G-struct / textbook expressions with author ids on no / some / all elements (plain, with spaces, looking like generated ids, with XML special characters; 8% with one duplicated author id) followed by speech with Bookmark=true under TTS None/SSML/SAPI5, up to 7 navigation steps (any command incl. place markers and jumps to them, or set_navigation_node on an element of the returned MathML with a character offset) and braille cursor routing; oracle on the returned MathML = every element has an id, ids are distinct, an author id on a token sits on an element whose visible text contains the token's text, an author id on a 2-D element stays on an element of that kind, and a token whose text is unique before and after keeps its author id; every id handed out later (bookmark marks, get_navigation_mathml_id, get_navigation_node_from_braille_position) is an id of the returned MathML; non-trivial = >= 2 author ids with restructuring, or >= 3 ids handed out".into()
    }
}
