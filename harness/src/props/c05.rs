//! C05 — speech is clean, non-empty text in every language (invariant on the output alphabet).
use crate::engine::*;
use crate::gen::*;
use crate::hist::NAV_COMMANDS;
use crate::norm::has_alnum_content;
use proptest::prelude::*;
use serde::{Deserialize, Serialize};
use serde_json::Value;

#[derive(Clone, Debug, Serialize, Deserialize)]
pub struct Case {
    pub tree: MNode,
    pub prefs: Vec<(String, String)>,
    pub nav: Vec<String>,
}

pub struct C05;

/// what must never reach the caller
pub fn dirty(s: &str) -> Option<(String, String)> {
    for c in s.chars() {
        if ('\u{E000}'..='\u{F8FF}').contains(&c) {
            return Some(("private-use-marker".into(), format!("U+{:04X}", c as u32)));
        }
        if ('\u{2061}'..='\u{2064}').contains(&c) {
            return Some(("raw-invisible-operator".into(), format!("U+{:04X}", c as u32)));
        }
    }
    if s.contains("[[") || s.contains("]]") {
        return Some(("navigation-brackets".into(), "[[ or ]]".into()));
    }
    let tag = regex::Regex::new(r"<[A-Za-z/][^>]*>").unwrap();
    if let Some(m) = tag.find(s) {
        return Some(("markup".into(), m.as_str().to_string()));
    }
    None
}

fn char_token(pool: Vec<char>) -> BoxedStrategy<MNode> {
    (proptest::sample::select(pool), prop_oneof![3 => Just("mi"), 3 => Just("mo"), 1 => Just("mtext")]).prop_map(|(c, t)| MNode::leaf(t, &c.to_string())).boxed()
}

/// assigned-looking code points outside private use, controls, surrogates, tags and format characters
fn random_char() -> BoxedStrategy<char> {
    prop_oneof![0x00A1u32..0x0250, 0x0370u32..0x0400, 0x2000u32..0x2060, 0x2070u32..0x2c00, 0x2e00u32..0x2e50, 0x3000u32..0x3040, 0x1D400u32..0x1D800, 0x1F780u32..0x1F800]
        .prop_filter_map("scalar", |cp| char::from_u32(cp))
        .prop_filter("not a format / space / invisible character", |c| !c.is_whitespace() && !c.is_control() && !('\u{2061}'..='\u{2064}').contains(c) && !('\u{200b}'..='\u{200f}').contains(c) && !('\u{2028}'..='\u{202e}').contains(c) && *c != '<' && *c != '>' && *c != '[' && *c != ']')
        .boxed()
}

impl Property for C05 {
    type Case = Case;
    fn id(&self) -> &'static str {
        "C05"
    }
    fn strategy(&self, tier: Tier) -> BoxedStrategy<Case> {
        let langs = languages();
        let depth = if tier == Tier::Thorough { 5 } else { 4 };
        sel(&langs)
            .prop_flat_map(move |lang| {
                let (short, full) = language_char_pools(&lang);
                // private-use characters are echoed by design (some tables even list them as keys) and a lone invisible
                // operator is only legal as an operator: neither is planted as single-character token text
                let keep = |c: &char| !('\u{E000}'..='\u{F8FF}').contains(c) && !('\u{2061}'..='\u{2064}').contains(c) && !c.is_whitespace() && !c.is_control() && !"<>[]&".contains(*c);
                let short: Vec<char> = short.into_iter().filter(keep).collect();
                let full: Vec<char> = full.into_iter().filter(keep).collect();
                let short = if short.is_empty() { vec!['x'] } else { short };
                let full = if full.is_empty() { vec!['y'] } else { full };
                let tok = prop_oneof![
                    4 => char_token(short),
                    4 => char_token(full),
                    2 => random_char().prop_map(|c| MNode::mi(&c.to_string())),
                    4 => token(&TokCfg::plain()),
                    1 => tok_text(),
                    // invisible operators *inside* the text of a longer token (pasted or generated content): legal token text
                    1 => (sel(&["a\u{2062}b", "if\u{2063}then", "2\u{2064}1/2", "f\u{2061}x", "x\u{2062}y\u{2062}z", "1\u{2063}2"]), sel(&["mtext", "mi", "mn"])).prop_map(|(t, tag)| MNode::leaf(tag, t)),
                ]
                .boxed();
                let tree = prop_oneof![
                    2 => math_of(structure(tok.clone(), StructCfg { depth, size: 24, wrappers: true, tables: true, multiscripts: true, degenerate: false, mfenced: true, semantics: false })),
                    1 => textbook(tok, TexCfg::default()).prop_map(|n| MNode::math(vec![n])),
                ];
                let prefs = (sel(&["ClearSpeak", "SimpleSpeak"]), sel(&["Terse", "Medium", "Verbose"]), sel(&["", "cap", "mayúscula"]), any::<bool>(), sel(&["Blindness", "LowVision", "LearningDisability"]), any::<bool>()).prop_map(move |(style, verb, cap, useword, imp, overview)| {
                    vec![
                        ("TTS".to_string(), "None".to_string()),
                        ("Language".to_string(), lang.clone()),
                        ("SpeechStyle".to_string(), style.to_string()),
                        ("Verbosity".to_string(), verb.to_string()),
                        ("SpeechOverrides_CapitalLetters".to_string(), cap.to_string()),
                        ("CapitalLetters_UseWord".to_string(), useword.to_string()),
                        ("Impairment".to_string(), imp.to_string()),
                        ("Overview".to_string(), overview.to_string()),
                    ]
                });
                let nav = proptest::collection::vec(sel(&NAV_COMMANDS[..34]).prop_map(|s| s.to_string()), 0..4);
                // author ids on some elements (any attribute value is legal XML: plain, empty, blank, with quotes, repeated):
                // ids steer the navigation markers that must never reach the caller
                let ids = prop_oneof![
                    3 => Just(vec![]),
                    1 => proptest::collection::vec((any::<u16>(), sel(&["n1", "", " ", "a b", "x'y", "n1", "M0", "[[", "0"])), 1..4),
                ];
                (tree, prefs, nav, ids).prop_map(|(mut tree, prefs, nav, ids)| {
                    let n = tree.count_nodes();
                    for (pos, id) in ids {
                        let target = (pos as usize * n) >> 16;
                        let mut i = 0;
                        tree.walk_mut(&mut |node| {
                            if i == target && node.tag != "#text" && node.get_attr("id").is_none() {
                                node.attrs.push(("id".to_string(), id.to_string()));
                            }
                            i += 1;
                        });
                    }
                    Case { tree, prefs, nav }
                })
            })
            .boxed()
    }
    fn eval(&self, case: &Case) -> Outcome {
        if let Err(e) = apply_prefs(&case.prefs) {
            return Outcome::reject(&format!("configuration rejected: {}", e.chars().take(50).collect::<String>()));
        }
        let lang = case.prefs.iter().find(|(k, _)| k == "Language").map(|(_, v)| v.clone()).unwrap_or_default();
        let xml = case.tree.to_xml();
        let canon = match api::set_mathml(&xml) {
            Ok(c) => c,
            Err(_) => return Outcome::reject("set_mathml failed"),
        };
        // content that canonicalization lost is C01's (listed) finding: emptiness is judged against the canonical expression
        let canon_has_content = parse_xml(&canon).map(|t| has_alnum_content(&t)).unwrap_or(true);
        let mut viols = vec![];
        let mut classes = vec![format!("lang:{}", lang)];
        let mut nontrivial = false;
        match api::speech() {
            Ok(s) => {
                if let Some((k, what)) = dirty(&s) {
                    viols.push((format!("speech:{}", k), format!("speech contains {}\nprefs: {:?}\nmathml: {}\nspeech: {:?}", what, case.prefs, xml, s)));
                }
                if s.trim().is_empty() && has_alnum_content(&case.tree) && canon_has_content {
                    viols.push(("speech:empty".to_string(), format!("speech is empty for an expression with letters/digits\nprefs: {:?}\nmathml: {}", case.prefs, xml)));
                }
                nontrivial = (s.contains(',') || s.contains(';')) && case.tree.tokens().iter().any(|t| t.txt().chars().any(|c| !c.is_ascii()));
            }
            Err(Fail::Err(_)) => classes.push("speech-err (C15)".into()),
            Err(Fail::Panic(_)) => classes.push("speech-panic (C08)".into()),
        }
        if let Ok(s) = api::overview() {
            if let Some((k, what)) = dirty(&s) {
                viols.push((format!("overview:{}", k), format!("overview contains {}\nprefs: {:?}\nmathml: {}\noverview: {:?}", what, case.prefs, xml, s)));
            }
        }
        for c in &case.nav {
            if let Ok(s) = api::nav_cmd(c) {
                classes.push("nav-speech".into());
                if let Some((k, what)) = dirty(&s) {
                    viols.push((format!("nav:{}", k), format!("do_navigate_command({}) returned speech containing {}\nprefs: {:?}\nmathml: {}\nspeech: {:?}", c, what, case.prefs, xml, s)));
                }
            }
        }
        let mut o = Outcome::from_violations(viols, nontrivial);
        o.classes = classes;
        o
    }
    fn to_json(&self, case: &Case) -> Value {
        let mut v = serde_json::to_value(case).unwrap();
        v["xml"] = Value::String(case.tree.to_xml());
        v
    }
    fn from_json(&self, v: &Value) -> Option<Case> {
        let mut v = v.clone();
        if let Some(o) = v.as_object_mut() {
            o.remove("xml");
        }
        serde_json::from_value(v).ok()
    }
    fn cases(&self) -> (usize, usize) {
        (8000, 250000)
    }
    fn rule(&self) -> String {
        "cases = G-struct / textbook expressions whose token characters are drawn from the language's unicode.yaml keys, the keys only in unicode-full.yaml, assigned characters in no table, and plain identifiers/numbers/operators/words (no private-use characters, [[ ]], or tag-shaped text: those are echoed by design) x language x style x verbosity x capital-letter override/word x impairment x overview, TTS=None; outputs judged: get_spoken_text, get_overview_text and the speech of up to 3 navigation commands; oracle = no U+E000-F8FF, no U+2061-2064, no [[ ]], no <tag>, and non-empty speech when a rendered token has a letter or digit; non-trivial = speech has pause punctuation and the expression has a non-ASCII character".into()
    }
}
