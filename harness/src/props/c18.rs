//! C18 — mathvariant maps characters to the right Unicode math letters (reference: UCD names).
use crate::engine::*;
use crate::gen::*;
use crate::norm::data_path;
use proptest::prelude::*;
use serde::{Deserialize, Serialize};
use serde_json::Value;
use std::collections::{BTreeMap, HashMap, HashSet};
use std::sync::OnceLock;

#[derive(Clone, Debug, Serialize, Deserialize)]
pub struct Case {
    pub tag: String,
    pub variant: String,
    pub text: String,
}

pub struct C18;

pub struct Reference {
    /// style -> char -> Some(expected char) if Unicode has one
    pub styles: BTreeMap<String, HashMap<char, Option<char>>>,
    pub assigned: HashSet<u32>,
    pub keys: Vec<char>,
}

pub fn reference() -> &'static Reference {
    static R: OnceLock<Reference> = OnceLock::new();
    R.get_or_init(|| {
        let text = std::fs::read_to_string(data_path("mathvariant_expected.json")).expect("mathvariant_expected.json");
        let v: Value = serde_json::from_str(&text).unwrap();
        let mut styles = BTreeMap::new();
        let mut keys: Vec<char> = vec![];
        for (style, m) in v["styles"].as_object().unwrap() {
            let mut hm = HashMap::new();
            for (k, val) in m.as_object().unwrap() {
                let kc = k.chars().next().unwrap();
                hm.insert(kc, val.as_str().and_then(|s| s.chars().next()));
                if !keys.contains(&kc) {
                    keys.push(kc);
                }
            }
            styles.insert(style.clone(), hm);
        }
        keys.sort();
        let assigned = v["assigned_in_math_blocks"].as_array().unwrap().iter().map(|x| x.as_u64().unwrap() as u32).collect();
        Reference { styles, assigned, keys }
    })
}

fn is_latin(c: char) -> bool {
    c.is_ascii_alphabetic()
}
fn is_digit(c: char) -> bool {
    c.is_ascii_digit()
}

/// The characters the statement allows as the image of `c` under `style`.
pub fn allowed(style: &str, c: char) -> Vec<char> {
    let r = reference();
    let Some(table) = r.styles.get(style) else { return vec![c] }; // normal / unknown values: unchanged
    if !table.contains_key(&c) {
        return vec![c]; // outside the mapping: unchanged
    }
    if style == "italic" && is_latin(c) {
        return vec![c]; // plain italic Latin is the default math style: left as is
    }
    if let Some(Some(x)) = table.get(&c) {
        return vec![*x];
    }
    // Unicode has no such character: documented fall-back, or unchanged
    let fb_style: Option<&str> = if is_digit(c) {
        match style {
            "bold-italic" => Some("bold"),
            "sans-serif-italic" => Some("sans-serif"),
            "sans-serif-bold-italic" => Some("bold-sans-serif"),
            _ => None,
        }
    } else if !is_latin(c) {
        match style {
            "bold-script" | "bold-fraktur" => Some("bold"),
            _ => None,
        }
    } else {
        None
    };
    match fb_style.and_then(|s| r.styles.get(s)).and_then(|t| t.get(&c)).copied().flatten() {
        // where the statement names a fall-back it must be used; digits of bold-script/bold-fraktur are not
        // named, so "unchanged" is the only accepted image there
        Some(x) => vec![x],
        None => vec![c],
    }
}

pub const OUTSIDE: &str = "éñüÅßøçдЖשא!?.,;#@&%()[]+=<>/|‰€ℏ∞∑∫√𝐀𝑏𝔸𝟙ℝℂℬ·×±";
pub const UNKNOWN_VARIANTS: &[&str] = &["normal", "Bold", "initial", "", "stretched", "bold "];

pub fn token_text_of_output(out: &MNode) -> String {
    let mut s = String::new();
    for t in out.tokens() {
        let tx = t.txt();
        if tx.chars().all(|c| ('\u{2061}'..='\u{2064}').contains(&c)) && t.get_attr("data-changed").is_some() {
            continue;
        }
        s.push_str(tx);
    }
    s
}

pub fn judge(case: &Case, out_text: &str) -> Vec<(String, String)> {
    let r = reference();
    let mut v = vec![];
    let ic: Vec<char> = case.text.chars().collect();
    let oc: Vec<char> = out_text.chars().collect();
    if ic.len() != oc.len() {
        v.push(("length-changed".to_string(), format!("{:?} ({}) -> {:?} ({} chars)", case.text, case.variant, out_text, oc.len())));
        return v;
    }
    // one-to-one within the style: two different letters never share an image
    for a in 0..ic.len() {
        for b in a + 1..ic.len() {
            // the one-to-one claim is about the letters of the mapping, not about already styled characters
            if ic[a] != ic[b] && oc[a] == oc[b] && r.keys.contains(&ic[a]) && r.keys.contains(&ic[b]) {
                v.push((format!("not-injective:{}", case.variant), format!("under mathvariant={} both {:?} and {:?} become {:?}", case.variant, ic[a], ic[b], oc[a])));
            }
        }
    }
    for (i, o) in ic.iter().zip(oc.iter()) {
        let al = allowed(&case.variant, *i);
        let cp = *o as u32;
        let in_math_blocks = (0x1D400..0x1D800).contains(&cp) || (0x2100..0x2150).contains(&cp);
        if in_math_blocks && !r.assigned.contains(&cp) {
            v.push((format!("unassigned:{}", case.variant), format!("{:?} under {} gives unassigned U+{:04X}", i, case.variant, cp)));
        } else if !al.contains(o) {
            let class = if is_latin(*i) {
                "latin"
            } else if is_digit(*i) {
                "digit"
            } else if r.styles["bold"].contains_key(i) {
                "greek"
            } else {
                "outside"
            };
            v.push((format!("wrong-char:{}:{}", case.variant, class), format!("U+{:04X} {:?} under mathvariant={:?} in <{}> gives U+{:04X} {:?}, expected {:?}", *i as u32, i, case.variant, case.tag, cp, o, al.iter().map(|c| format!("U+{:04X}", *c as u32)).collect::<Vec<_>>())));
        }
    }
    v
}

impl Property for C18 {
    type Case = Case;
    fn id(&self) -> &'static str {
        "C18"
    }
    fn strategy(&self, _tier: Tier) -> BoxedStrategy<Case> {
        let r = reference();
        let mut variants: Vec<String> = r.styles.keys().cloned().collect();
        variants.extend(UNKNOWN_VARIANTS.iter().map(|s| s.to_string()));
        let keys: Vec<char> = r.keys.clone();
        let outside: Vec<char> = "éñüÅßøçдЖ𝐀𝑏ℝℬ".chars().collect();
        let ch = prop_oneof![8 => proptest::sample::select(keys), 1 => proptest::sample::select(outside)];
        (sel(&["mi", "mtext", "ms"]), proptest::sample::select(variants), proptest::collection::vec(ch, 2..6)).prop_map(|(tag, variant, chars)| Case { tag: tag.to_string(), variant, text: chars.into_iter().collect() }).boxed()
    }
    fn explicit_cases(&self, _tier: Tier) -> Vec<Case> {
        let r = reference();
        let mut variants: Vec<String> = r.styles.keys().cloned().collect();
        variants.extend(UNKNOWN_VARIANTS.iter().map(|s| s.to_string()));
        let mut chars: Vec<char> = r.keys.clone();
        chars.extend(OUTSIDE.chars());
        let mut out = vec![];
        for v in &variants {
            for c in &chars {
                for tag in ["mi", "mn", "mo", "mtext"] {
                    out.push(Case { tag: tag.to_string(), variant: v.clone(), text: c.to_string() });
                }
            }
        }
        out
    }
    fn eval(&self, case: &Case) -> Outcome {
        let tree = MNode::math(vec![MNode::leaf(&case.tag, &case.text).attr("mathvariant", &case.variant)]);
        let xml = tree.to_xml();
        let out = match api::set_mathml(&xml) {
            Ok(s) => s,
            Err(Fail::Err(_)) => return Outcome::reject("set_mathml Err"),
            Err(Fail::Panic(_)) => return Outcome::reject("set_mathml panic (C08)"),
        };
        let Ok(parsed) = parse_xml(&out) else { return Outcome::reject("output unparsable (C02)") };
        let got = token_text_of_output(&parsed);
        // documented normalisations that are not about mathvariant (minus sign etc.) are kept out of the pools
        let viols = judge(case, &got);
        let nontrivial = case.text.chars().any(|c| allowed(&case.variant, c) != vec![c]);
        let mut o = Outcome::from_violations(viols.into_iter().map(|(s, d)| (s, format!("{}\ninput: {}\noutput: {}", d, xml, out.replace('\n', "")))).collect(), nontrivial);
        o.classes.push(format!("variant:{}", case.variant));
        o
    }
    fn to_json(&self, case: &Case) -> Value {
        serde_json::to_value(case).unwrap()
    }
    fn from_json(&self, v: &Value) -> Option<Case> {
        serde_json::from_value(v.clone()).ok()
    }
    fn cases(&self) -> (usize, usize) {
        (6000, 200000)
    }
    fn rule(&self) -> String {
        "exhaustive: every mathvariant value (13 mapped + normal + unknown values) x every key of the mapping (52 Latin, 10 digits, 58 Greek letters/symbols, 2 digammas) and ~60 characters outside it x mi/mn/mo/mtext as a single-character token; generated: multi-character tokens mixing mapped and unmapped characters; oracle = each output character equals the character Unicode names MATHEMATICAL <STYLE> <LETTER> (table built from Python unicodedata, incl. the Letterlike holes), the documented fall-back where Unicode has none, else unchanged; no unassigned code point; per-style injectivity over the exhaustive sweep; non-trivial = expected image differs from the input character".into()
    }
    fn extra_phases(&self, _cfg: &RunCfg, known: &[KnownFinding], stats: &mut Stats) {
        // injectivity of the *reference* restricted to its domain is a sanity check of the table itself;
        // injectivity of the implementation is checked from its observed images
        let r = reference();
        let images: Vec<(String, char, String)> = in_session(REPO_RULES, || {
            let mut v = vec![];
            for style in r.styles.keys() {
                for c in &r.keys {
                    let xml = MNode::math(vec![MNode::mi(&c.to_string()).attr("mathvariant", style)]).to_xml();
                    if let Ok(out) = api::set_mathml(&xml) {
                        if let Ok(p) = parse_xml(&out) {
                            v.push((style.clone(), *c, token_text_of_output(&p)));
                        }
                    }
                }
            }
            v
        });
        let mut seen: HashMap<(String, String), char> = HashMap::new();
        let mut collisions = 0;
        for (style, c, img) in &images {
            stats.evaluations += 1;
            if let Some(prev) = seen.insert((style.clone(), img.clone()), *c) {
                if prev != *c {
                    collisions += 1;
                    let sig = format!("not-injective:{}", style);
                    if let Some(kf) = known_match(known, "C18", &sig) {
                        *stats.known_hits.entry(kf.signature.clone()).or_default() += 1;
                    } else if !stats.violations.iter().any(|v| v.sig == sig) {
                        let case = Case { tag: "mi".into(), variant: style.clone(), text: format!("{}{}", prev, c) };
                        let detail = format!("under mathvariant={} both {:?} and {:?} become {:?}", style, prev, c, img);
                        let path = write_replay("C18", &sig, &detail, &serde_json::to_value(&case).unwrap(), true);
                        stats.violations.push(ViolationRecord { sig, detail, replay_path: path });
                    }
                }
            }
        }
        stats.extra.insert("injectivity_pairs_checked".into(), serde_json::json!(images.len()));
        stats.extra.insert("injectivity_collisions".into(), serde_json::json!(collisions));
        stats.extra.insert("exhaustive".into(), serde_json::json!(true));
    }
}
