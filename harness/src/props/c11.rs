//! C11 — navigation always rests on a node of the current expression (invariants + suffix model).
use crate::engine::*;
use crate::gen::*;
use crate::hist::NAV_COMMANDS;
use proptest::prelude::*;
use serde::{Deserialize, Serialize};
use serde_json::Value;
use std::collections::HashMap;

#[derive(Clone, Debug, Serialize, Deserialize)]
pub enum Step {
    Cmd(String),
    Key(usize, bool, bool, bool, bool),
    /// set the navigation node to the k-th id (monotone index) with offset 0
    SetNode(u16),
    /// the same with a character offset (an AT routing the braille cursor into a token)
    SetNodeAt(u16, usize),
    /// set another expression (index into `exprs`)
    SetMathml(u8),
}

#[derive(Clone, Debug, Serialize, Deserialize)]
pub struct Case {
    pub prefs: Vec<(String, String)>,
    pub exprs: Vec<String>,
    pub steps: Vec<Step>,
}

pub struct C11;

/// id -> tree path ("0.2.1") in the returned MathML
fn paths_of(mathml: &str) -> HashMap<String, String> {
    let mut m = HashMap::new();
    fn rec(n: &MNode, path: String, m: &mut HashMap<String, String>) {
        if let Some(id) = n.get_attr("id") {
            m.insert(id.to_string(), path.clone());
        }
        for (i, k) in n.kids.iter().enumerate() {
            rec(k, format!("{}.{}", path, i), m);
        }
    }
    if let Ok(t) = parse_xml(mathml) {
        rec(&t, "r".to_string(), &mut m);
    }
    m
}

fn is_read_only(cmd: &str) -> bool {
    cmd.starts_with("Read") || cmd.starts_with("Describe") || cmd.starts_with("WhereAmI") || cmd == "ToggleSpeakMode"
}

fn is_move(cmd: &str) -> bool {
    (cmd.starts_with("Move") || cmd.starts_with("Zoom")) && cmd != "MoveLastLocation" && !cmd.starts_with("MoveTo")
}

struct Sess {
    paths: HashMap<String, String>,
}

impl Sess {
    fn set_mathml(&mut self, x: &str) -> Result<(), String> {
        match api::set_mathml(x) {
            Ok(c) => {
                self.paths = paths_of(&c);
                Ok(())
            }
            Err(e) => Err(e.text()),
        }
    }
    /// current position as (tree path, offset); Err(what) if it is not a node of the current expression
    fn position(&self) -> Result<(String, usize), (String, String)> {
        let (id, off) = match api::nav_id() {
            Ok(p) => p,
            Err(Fail::Panic(p)) => return Err((p.signature(), format!("get_navigation_mathml_id panicked: {}", p.msg))),
            Err(Fail::Err(e)) => return Err(("nav-id-fails".into(), e)),
        };
        match self.paths.get(&id) {
            Some(p) => Ok((p.clone(), off)),
            None => Err(("position-not-in-expression".into(), format!("navigation id {:?} is not an id of the current expression", id))),
        }
    }
}

fn run_step(step: &Step, sess: &mut Sess, exprs: &[String]) -> Result<Option<String>, (String, String)> {
    // Ok(Some(cmd)) for a navigation command that was executed (name), Ok(None) otherwise
    match step {
        Step::Cmd(c) => match api::nav_cmd(c) {
            Err(Fail::Panic(p)) => Err((p.signature(), format!("do_navigate_command({}) panicked: {} at {}", c, p.msg, p.loc))),
            r => {
                if std::env::var("MCV_TRACE").is_ok() {
                    eprintln!("TRACE   {} returned {:?}", c, r.map_err(|e| e.text().chars().take(160).collect::<String>()));
                }
                Ok(Some(c.clone()))
            }
        },
        Step::Key(k, a, b, c, d) => match api::nav_key(*k, *a, *b, *c, *d) {
            Err(Fail::Panic(p)) => Err((p.signature(), format!("do_navigate_keypress({}) panicked: {} at {}", k, p.msg, p.loc))),
            _ => Ok(None),
        },
        Step::SetNode(_) | Step::SetNodeAt(..) => {
            let (k, off) = match step {
                Step::SetNode(k) => (*k, 0),
                Step::SetNodeAt(k, o) => (*k, *o),
                _ => unreachable!(),
            };
            let mut ids: Vec<&String> = sess.paths.keys().collect();
            ids.sort_by_key(|i| sess.paths[*i].clone());
            if let Some(id) = ids.get((k as usize * ids.len().max(1)) >> 16) {
                if let Err(Fail::Panic(p)) = api::set_nav_node(id, off) {
                    return Err((p.signature(), format!("set_navigation_node panicked: {}", p.msg)));
                }
            }
            Ok(None)
        }
        Step::SetMathml(i) => {
            let x = &exprs[(*i as usize) % exprs.len()];
            sess.set_mathml(x).map_err(|e| ("expression-rejected".to_string(), e))?;
            Ok(None)
        }
    }
}

impl C11 {
    fn run(&self, case: &Case) -> Outcome {
        if let Err(e) = apply_prefs(&case.prefs) {
            return Outcome::reject(&format!("configuration rejected: {}", e.chars().take(40).collect::<String>()));
        }
        let mut sess = Sess { paths: HashMap::new() };
        if sess.set_mathml(&case.exprs[0]).is_err() {
            return Outcome::reject("first expression rejected");
        }
        let mut viols: Vec<(String, String)> = vec![];
        let mut transcript: Vec<String> = vec![format!("set_mathml(expr 0)")];
        let mut markers: HashMap<char, (String, usize)> = HashMap::new();
        let mut since_set: Vec<Step> = vec![];
        let mut n_changes = 0;
        let mut used_marker_or_undo = false;
        let mut last_move: Option<((String, usize), (String, usize))> = None; // (p, q) of the previous step if it was a moving command
        let mut trace: Vec<(String, usize)> = vec![];
        macro_rules! fail {
            ($sig:expr, $msg:expr) => {{
                viols.push(($sig, format!("{}\nprefs: {:?}\nexpressions: {:?}\ntranscript:\n  {}", $msg, case.prefs, case.exprs, transcript.join("\n  "))));
                break;
            }};
        }
        // (2) right after set_mathml the position is the root
        match sess.position() {
            Ok((p, o)) if p == "r" && o == 0 => {}
            Ok(p) => {
                viols.push(("not-at-root-after-set_mathml".into(), format!("position after set_mathml is {:?}", p)));
            }
            Err((s, d)) => viols.push((s, d)),
        }
        for step in &case.steps {
            if !viols.is_empty() {
                break;
            }
            let before = match sess.position() {
                Ok(p) => p,
                Err((s, d)) => fail!(s, d),
            };
            let executed = match run_step(step, &mut sess, &case.exprs) {
                Ok(e) => e,
                Err((s, d)) => {
                    if s == "expression-rejected" {
                        return Outcome::reject("expression rejected");
                    }
                    fail!(s, d)
                }
            };
            transcript.push(format!("{:?}", step));
            if let Step::SetMathml(_) = step {
                markers.clear();
                since_set.clear();
                trace.clear();
                last_move = None;
                match sess.position() {
                    Ok((p, o)) if p == "r" && o == 0 => {}
                    Ok(p) => fail!("not-at-root-after-set_mathml".to_string(), format!("position after set_mathml is {:?}", p)),
                    Err((s, d)) => fail!(s, d),
                }
                continue;
            }
            if let Step::Key(k, _, ctrl, _, _) = step {
                // control + digit sets that place marker through the keyboard: the model forgets where it was
                if (48..=57).contains(k) && *ctrl {
                    markers.remove(&char::from_u32(*k as u32).unwrap_or('0'));
                }
            }
            since_set.push(step.clone());
            // (1) the position is a node of the current expression and its MathML can be retrieved
            let after = match sess.position() {
                Ok(p) => p,
                Err((s, d)) => fail!(s, d),
            };
            match api::nav_mathml() {
                Ok(_) => {}
                Err(Fail::Panic(p)) => fail!(p.signature(), format!("get_navigation_mathml panicked: {}", p.msg)),
                Err(Fail::Err(e)) => fail!("nav-mathml-fails".to_string(), format!("get_navigation_mathml fails: {}", e.chars().take(200).collect::<String>())),
            }
            if std::env::var("MCV_TRACE").is_ok() {
                eprintln!("TRACE {:?} -> {:?}", step, after);
            }
            trace.push(after.clone());
            if after != before {
                n_changes += 1;
            }
            if let Some(cmd) = &executed {
                // (3) read-only commands
                if is_read_only(cmd) && after != before {
                    fail!(format!("read-only-command-moved:{}", cmd.trim_end_matches(|c: char| c.is_ascii_digit())), format!("{} moved the position from {:?} to {:?}", cmd, before, after));
                }
                // (4) place markers
                if let Some(k) = cmd.strip_prefix("SetPlacemarker") {
                    markers.insert(k.chars().next().unwrap_or('0'), after.clone());
                    used_marker_or_undo = true;
                }
                if let Some(k) = cmd.strip_prefix("MoveTo") {
                    if let Some(want) = markers.get(&k.chars().next().unwrap_or('0')) {
                        // the statement is about the marked *node*: the character offset inside it is not compared
                        if after.0 != want.0 {
                            fail!("moveto-misses-placemarker".to_string(), format!("{} arrived at {:?}, the marker was set at {:?}", cmd, after, want));
                        }
                    }
                }
                // (5) undo
                if cmd == "MoveLastLocation" {
                    used_marker_or_undo = true;
                    if let Some((p, q)) = &last_move {
                        if q == &before && after.0 != p.0 {
                            fail!("undo-does-not-return".to_string(), format!("MoveLastLocation after a move from {:?} to {:?} arrived at {:?}", p, q, after));
                        }
                    }
                }
                last_move = if is_move(cmd) && after != before { Some((before.clone(), after.clone())) } else { None };
            } else {
                last_move = None;
            }
        }
        // (6) forgetting: the same suffix in a fresh session with the same navigation preferences reaches the same positions
        if viols.is_empty() && !since_set.is_empty() && case.steps.iter().any(|s| matches!(s, Step::SetMathml(_))) {
            let last_expr = case.steps.iter().rev().find_map(|s| if let Step::SetMathml(i) = s { Some(case.exprs[(*i as usize) % case.exprs.len()].clone()) } else { None }).unwrap();
            let nav_mode = api::get_pref("NavMode").unwrap_or_default();
            // NavMode / speak mode may have been toggled before the last set_mathml: carry the mode over as documented by ResetNavMode=false
            let last_set = case.steps.iter().rposition(|s| matches!(s, Step::SetMathml(_))).unwrap_or(0);
            let toggled_before = case.steps[..last_set].iter().any(|s| matches!(s, Step::Cmd(c) if c.starts_with("Toggle")) || matches!(s, Step::Key(..)));
            if !toggled_before {
                let prefs = case.prefs.clone();
                let suffix = since_set.clone();
                let exprs = case.exprs.clone();
                let reference: Result<Vec<(String, usize)>, String> = in_session(REPO_RULES, || {
                    apply_prefs(&prefs)?;
                    let mut s2 = Sess { paths: HashMap::new() };
                    s2.set_mathml(&last_expr)?;
                    let mut tr = vec![];
                    for st in &suffix {
                        run_step(st, &mut s2, &exprs).map_err(|e| e.1)?;
                        tr.push(s2.position().map_err(|e| e.1)?);
                    }
                    Ok(tr)
                });
                let _ = nav_mode;
                if let Ok(reference) = reference {
                    if reference != trace {
                        let i = reference.iter().zip(trace.iter()).position(|(a, b)| a != b).unwrap_or(0);
                        viols.push(("old-expression-not-forgotten".into(), format!("after set_mathml the commands {:?} reach {:?} here but {:?} in a fresh session (first difference at step {})\nprefs: {:?}\nexpressions: {:?}\ntranscript:\n  {}", suffix, trace, reference, i, case.prefs, case.exprs, transcript.join("\n  "))));
                    }
                }
            }
        }
        let nontrivial = n_changes >= 5 && used_marker_or_undo;
        let mut o = Outcome::from_violations(viols, nontrivial);
        let mode = case.prefs.iter().find(|(k, _)| k == "NavMode").map(|(_, v)| v.clone()).unwrap_or_default();
        o.classes.push(format!("mode:{}", mode));
        if case.steps.iter().any(|s| matches!(s, Step::SetMathml(_))) {
            o.classes.push("spans-change-of-expression".into());
        }
        o
    }
}

impl Property for C11 {
    type Case = Case;
    fn id(&self) -> &'static str {
        "C11"
    }
    fn session_per_case(&self) -> bool {
        true
    }
    fn strategy(&self, tier: Tier) -> BoxedStrategy<Case> {
        let operand = prop_oneof![4 => tok_ident(), 3 => "[0-9]{1,3}".prop_map(|s| MNode::mn(&s))].boxed();
        let with_ids = any::<bool>();
        let expr = (textbook(operand, TexCfg { depth: 3, size: 12, tables: true, text: true }), with_ids).prop_map(|(n, ids)| {
            let mut t = MNode::math(vec![n]);
            if ids {
                // author ids shared between expressions: same id scheme in every expression
                let mut k = 0;
                t.walk_mut(&mut |n| {
                    if n.tag != "#text" {
                        n.attrs.push(("id".to_string(), format!("n{}", k)));
                        k += 1;
                    }
                });
            }
            t.to_xml()
        });
        let prefs = (sel(&["Enhanced", "Simple", "Character"]), any::<bool>(), any::<bool>(), sel(&["Terse", "Medium", "Full"])).prop_map(|(mode, overview, auto, verb)| vec![("Language".to_string(), "en".to_string()), ("NavMode".to_string(), mode.to_string()), ("Overview".to_string(), overview.to_string()), ("AutoZoomOut".to_string(), auto.to_string()), ("NavVerbosity".to_string(), verb.to_string())]);
        let moves: Vec<&'static str> = NAV_COMMANDS[..17].to_vec();
        let step = prop_oneof![
            10 => sel(&moves).prop_map(|s| Step::Cmd(s.to_string())),
            6 => sel(NAV_COMMANDS).prop_map(|s| Step::Cmd(s.to_string())),
            2 => (sel(&[37usize, 38, 39, 40, 13, 32, 36, 35, 8, 27, 48, 49, 57]), any::<bool>(), any::<bool>(), any::<bool>()).prop_map(|(k, s, c, a)| Step::Key(k, s, c, a, false)),
            1 => any::<u16>().prop_map(Step::SetNode),
            1 => (any::<u16>(), sel(&[1usize, 2, 3, 7, 1000])).prop_map(|(k, o)| Step::SetNodeAt(k, o)),
            1 => (0..3u8).prop_map(Step::SetMathml),
        ];
        let max = if tier == Tier::Thorough { 60 } else { 40 };
        (prefs, proptest::collection::vec(expr, 2..=3), proptest::collection::vec(step, 1..=max)).prop_map(|(prefs, exprs, steps)| Case { prefs, exprs, steps }).boxed()
    }
    fn eval(&self, case: &Case) -> Outcome {
        self.run(case)
    }
    fn to_json(&self, case: &Case) -> Value {
        serde_json::to_value(case).unwrap()
    }
    fn from_json(&self, v: &Value) -> Option<Case> {
        serde_json::from_value(v.clone()).ok()
    }
    fn cases(&self) -> (usize, usize) {
        (3000, 80000)
    }
    fn max_shrink_iters(&self) -> usize {
        300
    }
    fn rule(&self) -> String {
        "cases = histories of 1..40 (thorough 60) navigation steps (all 74 command names with extra weight on the move/zoom family, key presses, set_navigation_node with and without a character offset, set_mathml of another expression out of 2-3 textbook expressions, with or without author ids shared between the expressions) x NavMode x Overview x AutoZoomOut x NavVerbosity in a fresh session; oracle after every step = the navigation id is an id of the current returned MathML and get_navigation_mathml succeeds; the position is the root right after set_mathml; Read*/Describe*/WhereAmI*/ToggleSpeakMode do not move; MoveToK returns to where SetPlacemarkerK was issued (same expression); MoveLastLocation right after a move from p to q returns to p; and the positions (as tree paths) reached since the last set_mathml equal those of the same commands in a fresh session; non-trivial = >= 5 position changes and a place marker or undo".into()
    }
}
