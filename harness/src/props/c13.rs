//! C13 — speech-engine markup is well formed and never changes the words.
use crate::engine::*;
use crate::gen::*;
use crate::hist::ids_of_mathml;
use crate::tex::*;
use proptest::prelude::*;
use serde::{Deserialize, Serialize};
use serde_json::Value;

#[derive(Clone, Debug, Serialize, Deserialize)]
pub struct Case {
    pub tree: MNode,
    pub engine: String,
    pub prefs: Vec<(String, String)>,
}

pub struct C13;

#[derive(Debug, Clone, PartialEq)]
pub enum Piece {
    Text(String),
    Open(String, Vec<(String, String)>),
    Close(String),
    Empty(String, Vec<(String, String)>),
}

/// A small tag scanner (not an XML library: SAPI5 is not XML).  Err = (class, what) for a syntax error.
pub fn scan(s: &str) -> Result<Vec<Piece>, (String, String)> {
    let chars: Vec<char> = s.chars().collect();
    let mut out = vec![];
    let mut i = 0;
    let mut text = String::new();
    while i < chars.len() {
        if chars[i] != '<' {
            text.push(chars[i]);
            i += 1;
            continue;
        }
        if !text.is_empty() {
            out.push(Piece::Text(std::mem::take(&mut text)));
        }
        // find the end of the tag, honouring quotes
        let start = i;
        i += 1;
        let mut quote: Option<char> = None;
        while i < chars.len() {
            let c = chars[i];
            match quote {
                Some(q) if c == q => quote = None,
                Some(_) => {}
                None if c == '\'' || c == '"' => quote = Some(c),
                None if c == '>' => break,
                None if c == '<' => return Err(("tag-syntax".into(), format!("'<' inside a tag: {}", chars[start..=i].iter().collect::<String>()))),
                None => {}
            }
            i += 1;
        }
        if i >= chars.len() {
            return Err(("tag-syntax".into(), format!("unterminated tag: {}", chars[start..].iter().take(60).collect::<String>())));
        }
        let inner: String = chars[start + 1..i].iter().collect();
        i += 1;
        let inner_t = inner.trim();
        if let Some(name) = inner_t.strip_prefix('/') {
            let name = name.trim();
            if name.is_empty() || !name.chars().all(|c| c.is_ascii_alphanumeric() || c == '-') {
                return Err(("tag-syntax".into(), format!("bad end tag </{}>", name)));
            }
            out.push(Piece::Close(name.to_string()));
            continue;
        }
        let (body, empty) = match inner_t.strip_suffix('/') {
            Some(b) => (b.trim_end(), true),
            None => (inner_t, false),
        };
        let name: String = body.chars().take_while(|c| c.is_ascii_alphanumeric() || *c == '-').collect();
        if name.is_empty() {
            return Err(("tag-syntax".into(), format!("no tag name in <{}>", inner)));
        }
        // attributes: name=("v"|'v')
        let mut attrs = vec![];
        let rest: Vec<char> = body[name.len()..].chars().collect();
        let mut j = 0;
        while j < rest.len() {
            if rest[j].is_whitespace() {
                j += 1;
                continue;
            }
            let an: String = rest[j..].iter().take_while(|c| c.is_ascii_alphanumeric() || **c == '-' || **c == ':' || **c == '_').collect();
            if an.is_empty() {
                return Err((format!("attr-syntax:{}", name), format!("bad attribute syntax in <{}>", inner)));
            }
            j += an.chars().count();
            if j >= rest.len() || rest[j] != '=' {
                return Err((format!("attr-syntax:{}", name), format!("attribute {} without '=' in <{}>", an, inner)));
            }
            j += 1;
            if j >= rest.len() || (rest[j] != '\'' && rest[j] != '"') {
                return Err((format!("attr-syntax:{}", name), format!("attribute {} value not quoted (or doubled '=') in <{}>", an, inner)));
            }
            let q = rest[j];
            j += 1;
            let mut val = String::new();
            while j < rest.len() && rest[j] != q {
                val.push(rest[j]);
                j += 1;
            }
            if j >= rest.len() {
                return Err((format!("attr-syntax:{}", name), format!("unterminated attribute value in <{}>", inner)));
            }
            j += 1;
            // XML attribute values must not contain '<' or a bare '&'
            let amp_ok = regex::Regex::new(r"&(?:[A-Za-z][A-Za-z0-9]*|#[0-9]+|#x[0-9A-Fa-f]+);").unwrap();
            if val.contains('<') || amp_ok.replace_all(&val, "").contains('&') {
                return Err((format!("attr-value-unescaped:{}", name), format!("attribute {} of <{}> contains an unescaped '<' or '&'", an, inner)));
            }
            attrs.push((an, val));
        }
        out.push(if empty { Piece::Empty(name, attrs) } else { Piece::Open(name, attrs) });
    }
    if !text.is_empty() {
        out.push(Piece::Text(text));
    }
    Ok(out)
}

pub const SSML_TAGS: &[&str] = &["prosody", "break", "say-as", "phoneme", "audio", "voice", "mark", "speak", "sub", "emphasis"];
pub const SAPI5_TAGS: &[&str] = &["pitch", "rate", "volume", "silence", "spell", "pron", "voice", "bookmark", "emph"];

pub fn words_of(pieces: &[Piece]) -> Vec<String> {
    let mut text = String::new();
    for p in pieces {
        if let Piece::Text(t) = p {
            text.push_str(t);
            text.push(' ');
        }
    }
    words(&text)
}

pub fn words(text: &str) -> Vec<String> {
    text.replace([',', ';'], " ").split_whitespace().map(|s| s.to_string()).collect()
}

pub fn judge_markup(engine: &str, speech: &str, plain: &str, ids: &[String], bookmark: bool) -> Vec<(String, String)> {
    let mut v = vec![];
    let pieces = match scan(speech) {
        Ok(p) => p,
        Err((k, what)) => {
            v.push((format!("{}:{}", engine, k), what));
            return v;
        }
    };
    let vocab = if engine == "SSML" { SSML_TAGS } else { SAPI5_TAGS };
    let mut stack: Vec<String> = vec![];
    let mut n_marks = 0;
    for p in &pieces {
        match p {
            Piece::Open(n, _) | Piece::Empty(n, _) if !vocab.contains(&n.as_str()) => {
                v.push((format!("{}:unknown-tag:{}", engine, n), format!("<{}> is not in the engine's vocabulary", n)));
            }
            _ => {}
        }
        match p {
            Piece::Open(n, _) => stack.push(n.clone()),
            Piece::Close(n) => match stack.pop() {
                Some(top) if &top == n => {}
                Some(top) => {
                    v.push((format!("{}:mismatched-close:{}", engine, top), format!("<{}> closed by </{}>", top, n)));
                    return v;
                }
                None => {
                    v.push((format!("{}:stray-close:{}", engine, n), format!("</{}> without an open tag", n)));
                    return v;
                }
            },
            Piece::Empty(n, attrs) => {
                if n == "mark" || n == "bookmark" {
                    n_marks += 1;
                    let val = attrs.first().map(|a| a.1.clone()).unwrap_or_default();
                    let unescape = |s: &str| s.replace("&lt;", "<").replace("&gt;", ">").replace("&apos;", "'").replace("&quot;", "\"").replace("&amp;", "&");
                    if !ids.iter().any(|i| unescape(i) == unescape(&val)) {
                        v.push((format!("{}:mark-not-an-id", engine), format!("<{} ..='{}'/> does not name an id of the expression", n, val)));
                    }
                }
            }
            Piece::Text(_) => {}
        }
    }
    if let Some(top) = stack.pop() {
        v.push((format!("{}:unclosed:{}", engine, top), format!("<{}> is never closed", top)));
    }
    if !bookmark && n_marks > 0 {
        v.push((format!("{}:mark-without-bookmark-pref", engine), "marks present although Bookmark=false".to_string()));
    }
    // differential with TTS=None: same words, pauses aside
    // word boundaries around concatenated pieces ("a" + "-th") depend on where the tags sit, so the comparison is
    // on the character sequence with white space and pause punctuation removed; the word lists are for the report
    let w1 = words_of(&pieces);
    let w2 = words(plain);
    if w1.concat() != w2.concat() {
        let i = w1.iter().zip(w2.iter()).position(|(a, b)| a != b).unwrap_or(w1.len().min(w2.len()));
        v.push((format!("{}:words-differ", engine), format!("words after removing tags differ from TTS=None at word {}: {:?} vs {:?}", i, w1.get(i.saturating_sub(1)..(i + 3).min(w1.len())), w2.get(i.saturating_sub(1)..(i + 3).min(w2.len())))));
    }
    v
}

impl Property for C13 {
    type Case = Case;
    fn id(&self) -> &'static str {
        "C13"
    }
    fn strategy(&self, tier: Tier) -> BoxedStrategy<Case> {
        let cfg = TexCfg { depth: if tier == Tier::Thorough { 5 } else { 4 }, size: 22, tables: true, text: true };
        let operand = prop_oneof![4 => one_char_of("abcxyzuvwkmnt"), 3 => one_char_of("ABCXYZPQRST"), 1 => one_char_of("αβγθλΔΩ"), 1 => select_str(ELEMENTS)].prop_map(|s| MNode::mi(&s));
        let number = prop_oneof![3 => "[0-9]{1,3}", 1 => "[0-9]{1,3}\\.[0-9]{1,2}"].prop_map(|s| MNode::mn(&s));
        let tree = textbook(prop_oneof![3 => operand, 2 => number].boxed(), cfg).prop_map(|n| MNode::math(vec![n]));
        // one expression in five carries author ids (bookmarks name them), some with characters that need escaping in markup
        let tree = (tree, 0..10u8, proptest::collection::vec(any::<u16>(), 4), 0..4u8).prop_map(|(t, k, picks, style)| if k < 2 { crate::props::c09::plant_ids(t, 1 + k, picks, style, false) } else { t });
        let prefs = (
            sel(&languages()),
            sel(&["ClearSpeak", "SimpleSpeak"]),
            // typical values, values next to the defaults (a change that rounds to "no change" in the engine's units), extremes
            (sel(&["100", "50", "200", "80.5", "101", "99", "100.4"]), sel(&["100", "0", "250", "33", "1", "99", "101"])),
            (sel(&["0", "1.0", "-5", "20", "-1", "0.3", "1.4", "-1.4", "100", "-60"]), sel(&["180", "100", "300", "181", "179", "185"]), sel(&["100", "50", "99", "1", "0"])),
            (sel(&["0", "10", "-10", "35.5", "1", "-1", "0.4", "1.4", "-1.4", "3", "-3", "99", "-60"]), any::<bool>(), any::<bool>(), sel(&["", "cap"])),
            any::<bool>(),
            sel(&["Terse", "Medium", "Verbose"]),
        )
            .prop_map(|(lang, style, (mathrate, pause), (pitch, rate, volume), (cap_pitch, beep, useword, over), bookmark, verb)| {
                vec![
                    ("Language".to_string(), lang),
                    ("SpeechStyle".to_string(), style.to_string()),
                    ("Verbosity".to_string(), verb.to_string()),
                    ("MathRate".to_string(), mathrate.to_string()),
                    ("PauseFactor".to_string(), pause.to_string()),
                    ("Pitch".to_string(), pitch.to_string()),
                    ("Rate".to_string(), rate.to_string()),
                    ("Volume".to_string(), volume.to_string()),
                    ("CapitalLetters_Pitch".to_string(), cap_pitch.to_string()),
                    ("CapitalLetters_Beep".to_string(), beep.to_string()),
                    ("CapitalLetters_UseWord".to_string(), useword.to_string()),
                    ("SpeechOverrides_CapitalLetters".to_string(), over.to_string()),
                    ("Bookmark".to_string(), bookmark.to_string()),
                ]
            });
        (tree, sel(&["SSML", "SAPI5"]), prefs).prop_map(|(tree, engine, prefs)| Case { tree, engine: engine.to_string(), prefs }).boxed()
    }
    fn eval(&self, case: &Case) -> Outcome {
        if let Err(e) = apply_prefs(&case.prefs) {
            return Outcome::reject(&format!("configuration rejected: {}", e.chars().take(50).collect::<String>()));
        }
        let bookmark = case.prefs.iter().any(|(k, v)| k == "Bookmark" && v == "true");
        let xml = case.tree.to_xml();
        // reference: the words with no engine selected
        if api::set_pref("TTS", "None").is_err() {
            return Outcome::reject("TTS=None rejected");
        }
        let canon = match api::set_mathml(&xml) {
            Ok(c) => c,
            Err(_) => return Outcome::reject("set_mathml failed"),
        };
        let ids = ids_of_mathml(&canon);
        // (observation hook, see C04: text dropped together with a repeated optional word -- with markup between the
        // words the repetition test of speech.rs fires in one of the two renderings only)
        let dropped_before = libmathcat::speech::VERIF_REPETITIVE_PREFIX_DROPPED.with(|c| c.get());
        let plain = match api::speech() {
            Ok(s) => s,
            Err(_) => return Outcome::reject("speech failed with TTS=None (C15)"),
        };
        let mut viols = vec![];
        if plain.contains('<') && crate::props::c05::dirty(&plain).map(|d| d.0 == "markup").unwrap_or(false) {
            viols.push(("none:markup".to_string(), format!("TTS=None speech contains markup: {}", plain)));
        }
        if api::set_pref("TTS", &case.engine).is_err() {
            return Outcome::reject("engine rejected");
        }
        let speech = match api::speech() {
            Ok(s) => s,
            Err(Fail::Err(e)) => return Outcome::reject(&format!("speech failed with engine: {}", e.chars().take(40).collect::<String>())),
            Err(Fail::Panic(_)) => return Outcome::reject("speech panic with engine (C08)"),
        };
        let _ = api::set_pref("TTS", "None");
        let prefix_dropped = libmathcat::speech::VERIF_REPETITIVE_PREFIX_DROPPED.with(|c| c.get()) > dropped_before;
        for (s, d) in judge_markup(&case.engine, &speech, &plain, &ids, bookmark) {
            let s = if prefix_dropped && s.ends_with(":words-differ") { "words-differ:is_repetitive-drops-text-before-optional-word".to_string() } else { s };
            viols.push((s, format!("{}\nprefs: {:?}\nmathml: {}\n{}: {}\nNone: {}", d, case.prefs, xml, case.engine, speech, plain)));
        }
        // class histogram: tag kinds provoked
        let mut classes = vec![format!("engine:{}", case.engine)];
        let mut kinds = std::collections::BTreeSet::new();
        let mut nested = false;
        if let Ok(pieces) = scan(&speech) {
            let mut depth = 0;
            for p in &pieces {
                match p {
                    Piece::Open(n, _) => {
                        kinds.insert(n.clone());
                        depth += 1;
                        if depth >= 2 {
                            nested = true;
                        }
                    }
                    Piece::Empty(n, _) => {
                        kinds.insert(n.clone());
                    }
                    Piece::Close(_) => depth -= 1,
                    _ => {}
                }
            }
        }
        for k in &kinds {
            classes.push(format!("tag:{}:{}", case.engine, k));
        }
        let mut o = Outcome::from_violations(viols, kinds.len() >= 2 && nested);
        o.classes = classes;
        o
    }
    fn to_json(&self, case: &Case) -> Value {
        let mut v = serde_json::to_value(case).unwrap();
        v["xml"] = Value::String(case.tree.to_xml());
        v
    }
    fn from_json(&self, v: &Value) -> Option<Case> {
        if v.get("tree").is_none() {
            let tree = parse_xml(v["xml"].as_str()?).ok()?;
            let prefs: Vec<(String, String)> = v.get("prefs").and_then(|p| serde_json::from_value(p.clone()).ok()).unwrap_or_default();
            return Some(Case { tree, engine: v["engine"].as_str()?.to_string(), prefs });
        }
        let mut v = v.clone();
        if let Some(o) = v.as_object_mut() {
            o.remove("xml");
        }
        serde_json::from_value(v).ok()
    }
    fn cases(&self) -> (usize, usize) {
        (6000, 200000)
    }
    fn rule(&self) -> String {
        "cases = textbook expressions with capitals, chemical symbols, Greek, long and short operands x engine {SSML, SAPI5} x language x style x verbosity x MathRate, PauseFactor, Pitch, Rate, Volume, CapitalLetters_Pitch/Beep/UseWord, SpeechOverrides_CapitalLetters, Bookmark; oracle = a hand-written tag scanner accepts the string (attribute syntax name=quoted value), tag names are in the engine's vocabulary, open/close tags nest and are all closed, every mark/bookmark names an id of the returned MathML and none is present with Bookmark=false, and the words left after removing the tags equal the words of the TTS=None speech of the same expression and preferences (pause punctuation ignored); non-trivial = >= 2 tag kinds and a nested pair".into()
    }
}
