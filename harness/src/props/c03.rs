//! C03 — row structure follows the operator dictionary (validity predicate + differential vs a reference parser).
use crate::engine::*;
use crate::gen::*;
use proptest::prelude::*;
use serde::{Deserialize, Serialize};
use serde_json::Value;
use std::collections::{BTreeSet, HashMap};
use std::sync::OnceLock;

#[derive(Clone, Debug, PartialEq, Eq, Serialize, Deserialize)]
pub enum Tok {
    Atom(String, String),  // (tag, text)
    Op(String, String),    // (text, form: "prefix" | "infix" | "postfix")
    Open(String),
    Close(String),
    Group(Vec<Tok>), // author mrow around a well-formed sub-sequence
}

#[derive(Clone, Debug, Serialize, Deserialize)]
pub struct Case {
    pub toks: Vec<Tok>,
    pub place: u8,
    pub exact: bool,
    /// embellished operators: (index of a top-level infix operator token, 1 = munder / 2 = mover with a text script,
    /// 3 = msub with a number): an embellished operator parses exactly like its base operator
    #[serde(default)]
    pub emb: Vec<(usize, u8)>,
}

/// the token row of a case as MathML children (operators listed in `emb` are embellished)
pub fn render(case: &Case) -> Vec<MNode> {
    let mut kids = toks_to_mathml(&case.toks);
    for (i, kind) in &case.emb {
        if let (Some(Tok::Op(_, f)), Some(k)) = (case.toks.get(*i), kids.get_mut(*i)) {
            if f == "infix" {
                let base = k.clone();
                *k = match kind {
                    1 => MNode::el("munder", vec![base, MNode::mtext("def")]),
                    2 => MNode::el("mover", vec![base, MNode::mtext("def")]),
                    _ => MNode::el("msub", vec![base, MNode::mn("2")]),
                };
            }
        }
    }
    kids
}

pub struct C03;

pub const PLACES: &[&str] = &["top", "mfrac-num", "msqrt", "mroot-base", "msup-base", "msup-exp", "msub-sub", "mover-base", "mtd", "menclose", "mfrac-den"];

// ------------------------------------------------------------------------------------------
// dictionary helpers

pub fn op_table() -> &'static HashMap<String, OpEntry> {
    static T: OnceLock<HashMap<String, OpEntry>> = OnceLock::new();
    T.get_or_init(|| operators().iter().map(|o| (o.text.clone(), o.clone())).collect())
}

fn form_of(s: &str) -> OpForm {
    match s {
        "prefix" => OpForm::Prefix,
        "postfix" => OpForm::Postfix,
        _ => OpForm::Infix,
    }
}

pub fn prio(text: &str, form: &str) -> Option<usize> {
    let t = if text == "\u{2212}" { "-" } else { text };
    op_table().get(t).and_then(|e| e.priority(&form_of(form)))
}

/// n-ary family of an operator (same family => one flat row)
fn family(text: &str) -> String {
    match text {
        "+" | "-" | "\u{2212}" => "plus-minus".to_string(),
        "×" | "\u{2062}" => "times".to_string(),
        t => format!("op:{}", t),
    }
}

/// operators with special clean-up rules, kept out of the exact part
fn is_special(text: &str) -> bool {
    const SPECIAL: &[&str] = &["|", "‖", "∥", "∣", ":", "::", "*", ".", ",", ";", "_", "'", "′", "″", "‴", "⁗", "\"", "`", "´", "‘", "’", "“", "”", "„", "‟", "‵", "‶", "‷", "ª", "°", "º", "²", "³", "¹", "…", "⋯", "∞", "~", "˜", "¯", "‾", "^", "ˆ", "˙", "¨", "--", "---", "ǁ", "\u{2061}", "\u{2062}", "\u{2063}", "\u{2064}", "$", "¢", "€", "£", "%", "/", "∕", "&", "-", "\u{2212}", "+", "×", "∘", "\u{2218}", "\u{20d8}", "\u{2092}", "\u{02c9}", "\u{0304}", "\u{0305}", "\u{0332}", "\u{2010}", "\u{2011}", "\u{2012}", "\u{2013}", "\u{2014}", "\u{2015}", "\u{203e}", "\u{02bc}", "\u{02dc}", "\u{223c}", "\u{02c6}", "\u{0302}", "\u{0307}", "\u{0308}", "∶", "∷", "△", "∠", "d", "ⅆ", "ⅅ", "∂", "∇", "√", "∛", "∜", "\\", "!", "!!"];
    SPECIAL.contains(&text) || text.chars().any(|c| c.is_alphanumeric() || c.is_whitespace()) || text.chars().all(|c| ('\u{0300}'..='\u{036f}').contains(&c) || ('\u{20d0}'..='\u{20ff}').contains(&c))
}

pub struct Pools {
    pub infix_only: Vec<(String, usize)>,
    pub prefix_only: Vec<(String, usize)>,
    pub postfix_only: Vec<(String, usize)>,
    pub multi: Vec<String>,
}

pub fn pools() -> &'static Pools {
    static P: OnceLock<Pools> = OnceLock::new();
    P.get_or_init(|| {
        let mut p = Pools { infix_only: vec![], prefix_only: vec![], postfix_only: vec![], multi: vec![] };
        for o in operators() {
            if o.forms.iter().any(|(f, _)| matches!(f, OpForm::LeftFence | OpForm::RightFence)) {
                continue;
            }
            if is_special(&o.text) {
                continue;
            }
            if o.forms.len() > 1 {
                p.multi.push(o.text.clone());
                continue;
            }
            let (f, pr) = &o.forms[0];
            if *pr < 30 {
                continue;
            }
            match f {
                OpForm::Infix => p.infix_only.push((o.text.clone(), *pr)),
                OpForm::Prefix => p.prefix_only.push((o.text.clone(), *pr)),
                OpForm::Postfix => p.postfix_only.push((o.text.clone(), *pr)),
                _ => {}
            }
        }
        p
    })
}

// ------------------------------------------------------------------------------------------
// reference parser (precedence climbing over dictionary priorities)

#[derive(Clone, Debug, PartialEq, Eq)]
pub enum PTree {
    Leaf(String),
    Row(Vec<PTree>),
}

impl PTree {
    fn leaves(&self, out: &mut Vec<String>) {
        match self {
            PTree::Leaf(s) => out.push(s.clone()),
            PTree::Row(k) => k.iter().for_each(|c| c.leaves(out)),
        }
    }
    /// spans (start, end) of every row, in leaf indices
    fn spans(&self, start: usize, out: &mut BTreeSet<(usize, usize)>) -> usize {
        match self {
            PTree::Leaf(_) => start + 1,
            PTree::Row(k) => {
                let mut p = start;
                for c in k {
                    p = c.spans(p, out);
                }
                out.insert((start, p));
                p
            }
        }
    }
    fn unwrap_single(self) -> PTree {
        match self {
            PTree::Row(mut k) if k.len() == 1 => k.remove(0).unwrap_single(),
            t => t,
        }
    }
}

#[derive(Clone, Debug)]
enum Item {
    Operand(PTree),
    Op { text: String, form: String, prio: usize },
    Open(String),
    Close(String),
}

struct Parser {
    items: Vec<Item>,
    pos: usize,
    ambiguous: bool,
}

const TIMES_PRIO_TEXT: &str = "\u{2062}";

impl Parser {
    fn peek(&self) -> Option<&Item> {
        self.items.get(self.pos)
    }
    /// operand := prefix-op expr(p+1) | open expr(0) close | operand item
    fn primary(&mut self) -> Option<PTree> {
        match self.peek().cloned() {
            Some(Item::Op { text, form, prio }) if form == "prefix" => {
                self.pos += 1;
                let arg = self.expr(prio + 1, Some((prio, family(&text))))?;
                Some(PTree::Row(vec![PTree::Leaf(text), arg]))
            }
            Some(Item::Open(o)) => {
                self.pos += 1;
                let inner = self.expr(0, None)?;
                match self.peek().cloned() {
                    Some(Item::Close(c)) => {
                        self.pos += 1;
                        Some(PTree::Row(vec![PTree::Leaf(o), inner, PTree::Leaf(c)]))
                    }
                    _ => None,
                }
            }
            Some(Item::Operand(t)) => {
                self.pos += 1;
                Some(t)
            }
            _ => None,
        }
    }
    /// `outer`: (priority, family) of the operator whose operand is being parsed -- an operator of the same
    /// priority but another family showing up next is a tie the dictionary does not resolve
    fn expr(&mut self, min: usize, outer: Option<(usize, String)>) -> Option<PTree> {
        let mut left = self.primary()?;
        loop {
            let (text, form, p) = match self.peek().cloned() {
                Some(Item::Op { text, form, prio }) if form != "prefix" => (text, form, prio),
                _ => break,
            };
            if let Some((op, of)) = &outer {
                if p == *op && family(&text) != *of {
                    self.ambiguous = true;
                }
            }
            if p < min {
                break;
            }
            self.pos += 1;
            if form == "postfix" {
                left = PTree::Row(vec![left, PTree::Leaf(text)]);
                continue;
            }
            // infix: collect the n-ary family
            let fam = family(&text);
            let mut items = vec![left, PTree::Leaf(text.clone())];
            loop {
                let right = self.expr(p + 1, Some((p, fam.clone())))?;
                items.push(right);
                match self.peek().cloned() {
                    Some(Item::Op { text: t2, form: f2, prio: p2 }) if f2 == "infix" && p2 == p && family(&t2) == fam => {
                        self.pos += 1;
                        items.push(PTree::Leaf(t2));
                    }
                    Some(Item::Op { text: t2, form: f2, prio: p2 }) if f2 != "prefix" && p2 == p && family(&t2) != fam => {
                        self.ambiguous = true;
                        break;
                    }
                    _ => break,
                }
            }
            left = PTree::Row(items);
        }
        Some(left)
    }
}

/// flatten tokens to parser items, inserting the implied multiplication between adjacent operands
fn to_items(toks: &[Tok], ambiguous: &mut bool) -> Option<Vec<Item>> {
    let mut items: Vec<Item> = vec![];
    let times_prio = prio(TIMES_PRIO_TEXT, "infix")?;
    let mut prev_is_operand = false;
    for t in toks {
        let starts_operand = matches!(t, Tok::Atom(..) | Tok::Open(_) | Tok::Group(_)) || matches!(t, Tok::Op(_, f) if f == "prefix");
        if prev_is_operand && starts_operand {
            items.push(Item::Op { text: "\u{2062}".into(), form: "infix".into(), prio: times_prio });
        }
        match t {
            Tok::Atom(_, text) => {
                items.push(Item::Operand(PTree::Leaf(text.clone())));
                prev_is_operand = true;
            }
            Tok::Op(text, form) => {
                let p = prio(text, form)?;
                items.push(Item::Op { text: if text == "\u{2212}" { "-".into() } else { text.clone() }, form: form.clone(), prio: p });
                prev_is_operand = form == "postfix";
            }
            Tok::Open(o) => {
                items.push(Item::Open(o.clone()));
                prev_is_operand = false;
            }
            Tok::Close(c) => {
                items.push(Item::Close(c.clone()));
                prev_is_operand = true;
            }
            Tok::Group(inner) => {
                let tree = reference_parse(inner, ambiguous)?;
                items.push(Item::Operand(tree));
                prev_is_operand = true;
            }
        }
    }
    Some(items)
}

pub fn reference_parse(toks: &[Tok], ambiguous: &mut bool) -> Option<PTree> {
    let items = to_items(toks, ambiguous)?;
    let mut p = Parser { items, pos: 0, ambiguous: false };
    let t = p.expr(0, None)?;
    if p.pos != p.items.len() {
        return None;
    }
    if p.ambiguous {
        *ambiguous = true;
    }
    Some(t.unwrap_single())
}

// ------------------------------------------------------------------------------------------
// MathML <-> tokens

pub fn toks_to_mathml(toks: &[Tok]) -> Vec<MNode> {
    toks.iter()
        .map(|t| match t {
            Tok::Atom(tag, text) => MNode::leaf(tag, text),
            Tok::Op(text, _) => MNode::mo(text),
            Tok::Open(o) => MNode::mo(o),
            Tok::Close(c) => MNode::mo(c),
            Tok::Group(inner) => MNode::row(toks_to_mathml(inner)),
        })
        .collect()
}

pub fn place_row(kids: Vec<MNode>, place: u8) -> (MNode, &'static str) {
    let name = PLACES[(place as usize) % PLACES.len()];
    let r = || MNode::row(kids.clone());
    let x = MNode::mi("z");
    let inner = match name {
        "top" => return (MNode::math(kids), name),
        "mfrac-num" => MNode::el("mfrac", vec![r(), x]),
        "mfrac-den" => MNode::el("mfrac", vec![x, r()]),
        "msqrt" => MNode::el("msqrt", kids.clone()),
        "mroot-base" => MNode::el("mroot", vec![r(), MNode::mn("3")]),
        "msup-base" => MNode::el("msup", vec![r(), MNode::mn("2")]),
        "msup-exp" => MNode::el("msup", vec![x, r()]),
        "msub-sub" => MNode::el("msub", vec![x, r()]),
        "mover-base" => MNode::el("mover", vec![r(), MNode::mo("→")]),
        "mtd" => MNode::el("mtable", vec![MNode::el("mtr", vec![MNode::el("mtd", kids.clone()), MNode::el("mtd", vec![x])])]),
        _ => MNode::el("menclose", kids.clone()).attr("notation", "box"),
    };
    (MNode::math(vec![inner]), name)
}

/// the subtree of the output that holds the row under test
fn find_row<'a>(out: &'a MNode, place_name: &str) -> Option<&'a MNode> {
    let first = out.kids.first()?;
    match place_name {
        "top" => Some(first),
        "mfrac-num" | "mroot-base" | "msup-base" | "mover-base" => first.kids.first(),
        "mfrac-den" | "msup-exp" | "msub-sub" => first.kids.get(1),
        "msqrt" | "menclose" => first.kids.first(),
        "mtd" => first.kids.first()?.kids.first()?.kids.first(),
        _ => None,
    }
}

fn out_tree(n: &MNode) -> PTree {
    if n.is_token() {
        PTree::Leaf(n.txt().to_string())
    } else if is_mo(n) {
        // an embellished operator is one token of the row: its base operator
        let mut b = n;
        while let Some(k) = b.kids.first() {
            b = k;
        }
        PTree::Leaf(b.txt().to_string())
    } else {
        PTree::Row(n.kids.iter().map(out_tree).collect())
    }
}

// ------------------------------------------------------------------------------------------
// Oracle A: validity predicate over every mrow of the output

/// an operator or an embellished operator (script / under-over element whose base is an operator)
fn is_mo(n: &MNode) -> bool {
    n.tag == "mo" || (["msup", "msub", "msubsup", "mover", "munder", "munderover", "mmultiscripts"].contains(&n.tag.as_str()) && n.kids.first().map(is_mo).unwrap_or(false))
}

fn principal_info(row: &MNode) -> Option<(String, usize)> {
    // (form, priority) of the row's operator (first non-fence mo child), by position
    let n = row.kids.len();
    for (i, k) in row.kids.iter().enumerate() {
        if !is_mo(k) {
            continue;
        }
        let e = op_table().get(k.txt())?;
        if e.forms.iter().any(|(f, _)| matches!(f, OpForm::LeftFence | OpForm::RightFence)) && (i == 0 || i == n - 1) {
            continue;
        }
        let form = if i == 0 {
            "prefix"
        } else if i == n - 1 {
            "postfix"
        } else {
            "infix"
        };
        let p = e.priority(&form_of(form)).or_else(|| e.forms.first().map(|f| f.1))?;
        return Some((form.to_string(), p));
    }
    None
}

pub fn oracle_a(sub: &MNode) -> Vec<(String, String)> {
    let mut v = vec![];
    sub.walk(&mut |row| {
        if row.tag != "mrow" {
            return;
        }
        let n = row.kids.len();
        // (d) no two operands adjacent
        for w in row.kids.windows(2) {
            if !is_mo(&w[0]) && !is_mo(&w[1]) {
                v.push(("adjacent-operands".to_string(), format!("two operands side by side in {}", row.shape())));
            }
        }
        // (a) all infix operators of the row have one priority or are one n-ary family
        let mut infix: Vec<(String, usize)> = vec![];
        for (i, k) in row.kids.iter().enumerate() {
            if is_mo(k) && i > 0 && i + 1 < n && !is_mo(&row.kids[i - 1]) {
                if let Some(p) = prio(k.txt(), "infix") {
                    infix.push((k.txt().to_string(), p));
                }
            }
        }
        if infix.len() >= 2 {
            let p0 = infix[0].1;
            let f0 = family(&infix[0].0);
            if !(infix.iter().all(|(_, p)| *p == p0) || infix.iter().all(|(t, _)| family(t) == f0)) {
                v.push(("mixed-priorities-in-row".to_string(), format!("operators {:?} share one row: {}", infix, row.shape())));
            }
        }
        // (b) an operand row whose principal operator is infix/postfix binds at least as tightly
        if let Some((_, rp)) = principal_info(row) {
            for (ki, k) in row.kids.iter().enumerate() {
                // only rows MathCAT itself introduced are judged: an author's mrow is a deliberate grouping
                if k.tag == "mrow" && k.get_attr("data-changed") == Some("added") {
                    if let Some((cf, cp)) = principal_info(k) {
                        // a postfix row that is the *left* operand has no other parse (a ! ⊚ b can only be (a !) ⊚ b),
                        // just as a prefix row may be the operand of any operator
                        if cf == "postfix" && ki == 0 {
                            continue;
                        }
                        if cf != "prefix" && cp < rp {
                            v.push(("looser-child-row".to_string(), format!("child row (priority {}) binds looser than its parent row (priority {}): {}", cp, rp, row.shape())));
                        }
                    }
                }
            }
        }
    });
    v.dedup_by(|a, b| a.0 == b.0);
    v
}

// ------------------------------------------------------------------------------------------
// generators

fn atom() -> BoxedStrategy<Tok> {
    prop_oneof![
        3 => one_char_of("abckmnpqrtuvwxyz").prop_map(|s| Tok::Atom("mi".into(), s)),
        2 => "[1-9][0-9]{0,2}".prop_map(|s| Tok::Atom("mn".into(), s)),
    ]
    .boxed()
}

#[derive(Clone, Debug)]
struct Piece {
    prefix: Option<(String, usize)>,
    atom: Tok,
    group: Option<Vec<Tok>>,
    postfix: Option<(String, usize)>,
}

fn piece(depth: u32) -> BoxedStrategy<Piece> {
    let p = pools();
    let pre = proptest::option::weighted(0.25, prop_oneof![3 => proptest::sample::select(p.prefix_only.clone()), 2 => Just(("-".to_string(), 690usize))]);
    // postfix-only operators, and the factorial (which the dictionary also lists as a prefix operator)
    let post = proptest::option::weighted(0.2, prop_oneof![4 => proptest::sample::select(p.postfix_only.clone()), 1 => Just(("!".to_string(), 810usize))]);
    let grp: BoxedStrategy<Option<Vec<Tok>>> = if depth == 0 { Just(None).boxed() } else { proptest::option::weighted(0.3, sequence(depth - 1, 1, 3)).boxed() };
    (pre, atom(), grp, post).prop_map(|(prefix, atom, group, postfix)| Piece { prefix, atom, group, postfix }).boxed()
}

/// E := piece (infix piece)*  with distinct priorities unless same family
fn sequence(depth: u32, min: usize, max: usize) -> BoxedStrategy<Vec<Tok>> {
    let p = pools();
    // operators that bind tighter than the implied multiplication get extra weight: their interplay with
    // juxtaposition, prefix rows and fences is where precedence bugs hide
    let times = prio("\u{2062}", "infix").unwrap_or(390);
    let mut tight: Vec<String> = p.infix_only.iter().filter(|(_, pr)| *pr > times).map(|(t, _)| t.clone()).collect();
    tight.push("/".to_string());
    tight.push("÷".to_string());
    let infix = prop_oneof![
        5 => proptest::sample::select(p.infix_only.clone()).prop_map(|(t, _)| Some(t)),
        3 => sel(&["+", "-", "×", "=", "<", "→", "∧", "∨", "≤", "∈", "∪", "∩", "⇒", "⊂", "≠", "⋅", "÷", "±", "/"]).prop_map(|s| Some(s.to_string())),
        3 => proptest::sample::select(tight).prop_map(Some),
        3 => Just(None), // juxtaposition
    ];
    (proptest::collection::vec((piece(depth), infix, any::<u8>()), min..=max)).prop_map(|v| {
        let mut out: Vec<Tok> = vec![];
        for (i, (pc, inf, wrap)) in v.into_iter().enumerate() {
            if i > 0 {
                if let Some(op) = inf {
                    out.push(Tok::Op(op, "infix".into()));
                } else {
                    // juxtaposition: never an identifier directly before a fence (function application heuristics)
                }
            }
            let mut unit: Vec<Tok> = vec![];
            if let Some((t, _)) = pc.prefix {
                unit.push(Tok::Op(t, "prefix".into()));
            }
            match pc.group {
                Some(g) => {
                    // mostly the unambiguous pairs; one group in five is fenced by bars (open = close: MathCAT has to
                    // work out from the context which bar opens and which closes) or by angle / ceiling brackets
                    let fences = [("(", ")"), ("[", "]"), ("{", "}"), ("(", ")"), ("[", "]"), ("(", ")"), ("{", "}"), ("(", ")"), ("|", "|"), ("‖", "‖"), ("⟨", "⟩"), ("⌈", "⌉"), ("|", "|"), ("‖", "‖"), ("[", "]")];
                    let (o, c) = fences[(wrap as usize) % fences.len()];
                    if wrap % 5 == 0 {
                        unit.push(Tok::Group(g));
                    } else {
                        unit.push(Tok::Open(o.into()));
                        unit.extend(g);
                        unit.push(Tok::Close(c.into()));
                    }
                }
                None => unit.push(pc.atom),
            }
            if let Some((t, _)) = pc.postfix {
                unit.push(Tok::Op(t, "postfix".into()));
            }
            // author mrow around the whole unit sometimes
            if wrap % 7 == 0 && unit.len() > 1 {
                out.push(Tok::Group(unit));
            } else {
                out.extend(unit);
            }
        }
        out
    })
    .boxed()
}

/// repair a sequence so that the documented heuristics stay out of the way
/// Bars are ambiguous (open = close, and also infix): which one opens and which closes is a documented heuristic.
/// A bar pair is kept only where a reader has no doubt: not nested in another bar pair, not next to another bar, and
/// no bar-like operator anywhere in the sequence; otherwise the pair is turned into parentheses.
fn tame_bars(toks: &mut Vec<Tok>) {
    fn is_bar(t: &str) -> bool {
        ["|", "‖", "∥", "∣", "ǁ"].contains(&t)
    }
    fn has_bar_op(toks: &[Tok]) -> bool {
        toks.iter().any(|t| match t {
            Tok::Op(x, _) => is_bar(x),
            Tok::Atom(_, x) => is_bar(x),
            Tok::Group(g) => has_bar_op(g),
            _ => false,
        })
    }
    fn rec(toks: &mut Vec<Tok>, bars_open: &mut usize, all: bool) {
        let mut stack: Vec<bool> = vec![]; // per open fence of this level: (was converted or is not a bar)
        for i in 0..toks.len() {
            let prev_is_bar = i > 0 && matches!(&toks[i - 1], Tok::Open(x) | Tok::Close(x) if is_bar(x));
            // the contents up to the matching close: only atoms and arithmetic (|x|, |a+b|, ‖v‖): relations or other
            // fences inside bars make MathCAT (and readers) consider the "such that" / "divides" readings
            let simple_contents = {
                let mut depth = 0usize;
                let mut ok = true;
                for t in &toks[i + 1..] {
                    match t {
                        Tok::Open(_) => {
                            depth += 1;
                            ok = false;
                        }
                        Tok::Close(_) => {
                            if depth == 0 {
                                break;
                            }
                            depth -= 1;
                        }
                        Tok::Atom(..) => {}
                        Tok::Op(x, f) => ok &= f == "infix" && ["+", "-", "−", "×", "·", "/", "\u{2062}"].contains(&x.as_str()),
                        Tok::Group(_) => ok = false,
                    }
                }
                ok
            };
            match &mut toks[i] {
                Tok::Group(g) => rec(g, bars_open, all),
                Tok::Open(o) => {
                    if is_bar(o) {
                        if all || *bars_open > 0 || prev_is_bar || !simple_contents {
                            *o = "(".to_string();
                            stack.push(true);
                        } else {
                            *bars_open += 1;
                            stack.push(false);
                        }
                    } else {
                        stack.push(true);
                    }
                }
                Tok::Close(c) => {
                    let converted = stack.pop().unwrap_or(true);
                    if is_bar(c) {
                        if converted {
                            *c = ")".to_string();
                        } else {
                            *bars_open = bars_open.saturating_sub(1);
                        }
                    }
                }
                _ => {}
            }
        }
    }
    let all = has_bar_op(toks);
    let mut open = 0;
    rec(toks, &mut open, all);
}

fn sanitize_seq(toks: Vec<Tok>) -> Vec<Tok> {
    let mut out: Vec<Tok> = vec![];
    for t in toks {
        let t = match t {
            Tok::Group(g) => Tok::Group(sanitize_seq(g)),
            t => t,
        };
        if let Some(prev) = out.last() {
            let prev_operand_end = matches!(prev, Tok::Atom(..) | Tok::Close(_) | Tok::Group(_)) || matches!(prev, Tok::Op(_, f) if f == "postfix");
            let cur_operand_start = matches!(t, Tok::Atom(..) | Tok::Open(_) | Tok::Group(_)) || matches!(&t, Tok::Op(_, f) if f == "prefix");
            if prev_operand_end && cur_operand_start {
                // juxtaposition: allowed only number-then-letter, or anything-then/after a bracketed group that is
                // not preceded by an identifier; everything else gets an explicit times sign
                let ok = match (prev, &t) {
                    (Tok::Atom(pt, _), Tok::Atom(ct, _)) => pt == "mn" && ct == "mi",
                    (Tok::Atom(pt, _), Tok::Open(_)) | (Tok::Atom(pt, _), Tok::Group(_)) => pt == "mn",
                    (Tok::Close(_), Tok::Atom(..)) | (Tok::Group(_), Tok::Atom(..)) => true,
                    (Tok::Close(_), Tok::Open(_)) => true,
                    _ => false,
                };
                if !ok {
                    out.push(Tok::Op("×".into(), "infix".into()));
                }
            }
        }
        // "n / m" after a number is read as a mixed fraction (documented heuristic): a slash is never followed by a number
        let t = match (&t, out.last()) {
            (Tok::Atom(tag, _), Some(Tok::Op(op, _))) if tag == "mn" && (op == "/" || op == "∕") => Tok::Atom("mi".into(), "k".into()),
            _ => t,
        };
        out.push(t);
    }
    out
}

fn sign_before_bracket(toks: &[Tok]) -> bool {
    for w in toks.windows(2) {
        if let (Tok::Op(t, f), Tok::Open(o)) = (&w[0], &w[1]) {
            if f == "prefix" && (t == "-" || t == "+" || t == "\u{2212}") && !o.is_empty() {
                return true;
            }
        }
    }
    toks.iter().any(|t| if let Tok::Group(g) = t { sign_before_bracket(g) } else { false })
}

impl Property for C03 {
    type Case = Case;
    fn id(&self) -> &'static str {
        "C03"
    }
    fn strategy(&self, tier: Tier) -> BoxedStrategy<Case> {
        let max = if tier == Tier::Thorough { 6 } else { 5 };
        let exact = (sequence(2, 1, max), any::<u8>(), (0..8u8, any::<u16>(), sel(&["=", "+", "≤", "→", "≡", "∼"]))).prop_map(|(t, place, (kind, which, op))| {
            let mut toks = sanitize_seq(t);
            tame_bars(&mut toks);
            let mut emb = vec![];
            if (1..=3).contains(&kind) {
                // one top-level infix operator becomes an embellished relation / sum sign
                let at: Vec<usize> = toks.iter().enumerate().filter(|(_, t)| matches!(t, Tok::Op(_, f) if f == "infix")).map(|(i, _)| i).collect();
                if !at.is_empty() {
                    let i = at[(which as usize * at.len()) >> 16];
                    toks[i] = Tok::Op(op.to_string(), "infix".into());
                    emb.push((i, kind));
                }
            }
            Case { toks, place, exact: true, emb }
        });
        // validity-only part: any dictionary operator (incl. multi-form and special ones) between atoms
        let any_op = proptest::sample::select(operators().iter().filter(|o| !o.forms.iter().any(|(f, _)| matches!(f, OpForm::LeftFence | OpForm::RightFence))).map(|o| o.text.clone()).collect::<Vec<_>>());
        let loose = (proptest::collection::vec((atom(), any_op, 0..10u8), 2..6), any::<u8>()).prop_map(|(v, place)| {
            let mut toks = vec![];
            for (i, (a, op, k)) in v.into_iter().enumerate() {
                if i > 0 || k == 0 {
                    toks.push(Tok::Op(op.clone(), "infix".into()));
                }
                toks.push(a);
                if k == 1 {
                    toks.push(Tok::Op(op, "postfix".into()));
                }
            }
            Case { toks, place, exact: false, emb: vec![] }
        });
        prop_oneof![4 => exact, 1 => loose].boxed()
    }
    fn eval(&self, case: &Case) -> Outcome {
        // the chemistry heuristics re-interpret letters such as n, p and operators such as the dot as bonds:
        // they are a documented, switchable heuristic and are kept out of the way
        if api::set_pref("Chemistry", "Off").is_err() {
            return Outcome::reject("cannot switch chemistry heuristics off");
        }
        let kids = render(case);
        let (tree, place_name) = place_row(kids, case.place);
        let xml = tree.to_xml();
        let out = match api::set_mathml(&xml) {
            Ok(s) => s,
            Err(Fail::Err(_)) => return Outcome::reject("set_mathml Err"),
            Err(Fail::Panic(_)) => return Outcome::reject("set_mathml panic (C08)"),
        };
        let Ok(parsed) = parse_xml(&out) else { return Outcome::reject("output unparsable (C02)") };
        if out.contains("data-chemical-bond") || out.contains("data-chem-formula-op") {
            return Outcome::reject("chemistry heuristics fired although switched off");
        }
        let Some(sub) = find_row(&parsed, place_name) else { return Outcome::reject("row not found where it was placed") };
        let mut classes = vec![format!("place:{}", place_name), if case.exact { "exact".to_string() } else { "predicate-only".to_string() }];
        let mut viols: Vec<(String, String)> = vec![];
        if case.exact {
            for (s, d) in oracle_a(sub) {
                viols.push((format!("A:{}", s), format!("{}\ninput: {}\noutput: {}", d, xml, out.replace('\n', ""))));
            }
            fn has_bar_fence(t: &[Tok]) -> bool {
                t.iter().any(|x| match x {
                    Tok::Open(o) => o == "|" || o == "‖",
                    Tok::Group(g) => has_bar_fence(g),
                    _ => false,
                })
            }
            if has_bar_fence(&case.toks) {
                classes.push("fence:bar-pair".into());
            }
            let mut ambiguous = false;
            match reference_parse(&case.toks, &mut ambiguous) {
                None => classes.push("reference-cannot-parse".into()),
                Some(_) if ambiguous => classes.push("ambiguous-tie".into()),
                Some(reference) => {
                    let got = out_tree(sub).unwrap_single();
                    let (mut lr, mut lg) = (vec![], vec![]);
                    reference.leaves(&mut lr);
                    got.leaves(&mut lg);
                    let lg: Vec<String> = lg.into_iter().map(|s| if s == "\u{2212}" { "-".to_string() } else { s }).collect();
                    let invisible = |s: &String| s.chars().all(|c| ('\u{2061}'..='\u{2064}').contains(&c)) && !s.is_empty();
                    let visible_only = |v: &Vec<String>| v.iter().filter(|s| !invisible(s)).cloned().collect::<Vec<_>>();
                    if lr != lg && visible_only(&lr) == visible_only(&lg) && lr.len() == lg.len() {
                        // the same visible tokens and the same number of invisible operators, but at other places: an implied
                        // operator was put on the wrong side of a fence or operand
                        let at = lr.iter().zip(lg.iter()).position(|(a, b)| a != b).unwrap_or(0);
                        if invisible(&lr[at]) != invisible(&lg[at]) {
                            // which bar pair: contents with operators of several precedence levels are a listed finding
                            // (the matching open bar is then deeper in the parse stack than determine_vertical_bar_op looks)
                            fn max_ops_in_bars(t: &[Tok]) -> usize {
                                let mut best = 0;
                                let mut i = 0;
                                while i < t.len() {
                                    match &t[i] {
                                        Tok::Open(o) if o == "|" || o == "‖" => {
                                            let mut n = 0;
                                            let mut j = i + 1;
                                            while j < t.len() && !matches!(&t[j], Tok::Close(_)) {
                                                if matches!(&t[j], Tok::Op(..)) {
                                                    n += 1;
                                                }
                                                j += 1;
                                            }
                                            best = best.max(n);
                                            i = j;
                                        }
                                        Tok::Group(g) => best = best.max(max_ops_in_bars(g)),
                                        _ => {}
                                    }
                                    i += 1;
                                }
                                best
                            }
                            let kind = if max_ops_in_bars(&case.toks) >= 2 { "bars-around-several-operators" } else { "simple" };
                            viols.push((format!("B:implied-operator-misplaced:{}", kind), format!("reference leaves: {:?}
MathCAT leaves:   {:?}
input: {}
output: {}", lr, lg, xml, out.replace('\n', ""))));
                        } else {
                            classes.push("leaves-differ".into());
                        }
                    } else if lr != lg && visible_only(&lr) == visible_only(&lg) && lg.len() > lr.len() && !case.emb.is_empty() {
                        // the same visible tokens, but MathCAT inserted an implied operator where the reference sees no two
                        // adjacent operands (judged for rows with an embellished operator, whose neighbours are operands
                        // and operators exactly as for the base operator)
                        viols.push(("B:spurious-implied-operator".to_string(), format!("reference leaves: {:?}\nMathCAT leaves:   {:?}\ninput: {}\noutput: {}", lr, lg, xml, out.replace('\n', ""))));
                    } else if lr != lg {
                        // token text was normalised or an operator was inserted that the reference does not know: not judged
                        classes.push("leaves-differ".into());
                    } else {
                        let (mut sr, mut sg) = (BTreeSet::new(), BTreeSet::new());
                        reference.spans(0, &mut sr);
                        got.spans(0, &mut sg);
                        classes.push("exact-compared".into());
                        if sr != sg {
                            let missing: Vec<_> = sr.difference(&sg).collect();
                            let extra: Vec<_> = sg.difference(&sr).collect();
                            let kind = if case.toks.iter().any(|t| matches!(t, Tok::Op(_, f) if f == "prefix")) {
                                "with-prefix"
                            } else if case.toks.iter().any(|t| matches!(t, Tok::Op(_, f) if f == "postfix")) {
                                "with-postfix"
                            } else {
                                "infix-only"
                            };
                            viols.push((format!("B:bracketing:{}", kind), format!("leaves: {:?}\nreference rows (spans): {:?}\nMathCAT rows (spans):   {:?}\nmissing {:?} extra {:?}\ninput: {}\noutput: {}", lr, sr, sg, missing, extra, xml, out.replace('\n', ""))));
                        }
                    }
                }
            }
        } else {
            // predicate (d) only: adjacent operands are always separated
            for (s, d) in oracle_a(sub) {
                if s == "adjacent-operands" {
                    viols.push((format!("A:{}", s), format!("{}\ninput: {}\noutput: {}", d, xml, out.replace('\n', ""))));
                }
            }
        }
        // known input class: + / - in prefix position directly before an open fence other than "(" is looked up as infix
        if !viols.is_empty() && sign_before_bracket(&case.toks) {
            let detail = viols.iter().map(|(s, d)| format!("[{}] {}", s, d)).collect::<Vec<_>>().join("\n");
            viols = vec![("trigger:sign-before-bracket".to_string(), detail)];
        }
        let n_ops = case.toks.iter().filter(|t| matches!(t, Tok::Op(..))).count();
        let nontrivial = n_ops >= 2;
        let mut o = Outcome::from_violations(viols, nontrivial);
        o.classes = classes;
        o
    }
    fn to_json(&self, case: &Case) -> Value {
        let mut v = serde_json::to_value(case).unwrap();
        let (tree, _) = place_row(render(case), case.place);
        v["xml"] = Value::String(tree.to_xml());
        v
    }
    fn from_json(&self, v: &Value) -> Option<Case> {
        let mut v = v.clone();
        if let Some(o) = v.as_object_mut() {
            o.remove("xml");
        }
        serde_json::from_value(v).ok()
    }
    fn cases(&self) -> (usize, usize) {
        (30000, 600000)
    }
    fn rule(&self) -> String {
        "cases = well-formed token sequences E := [P] A [Q] (I [P] A [Q])* over single-form dictionary operators (infix-only / prefix-only / postfix-only, priority >= 30) plus the + - x families, atoms = safe lower-case letters and 1-3 digit numbers, nested () [] {} groups and author mrows, implied multiplication, placed at top level or inside mfrac/msqrt/mroot/msup/msub/mover/mtd/menclose; oracle A = every mrow has one priority class or one n-ary family, operand rows bind at least as tightly, no adjacent operands; oracle B = the bracketing (set of row spans over the leaf sequence) equals a precedence-climbing reference parse from the dictionary priorities, skipped when two different operators tie in priority; a predicate-only stream uses every dictionary operator; non-trivial = >= 2 operators".into()
    }
}
