//! C07 — braille output uses only the target alphabet (invariant).
use crate::engine::*;
use crate::gen::*;
use crate::hist::NAV_COMMANDS;
use crate::norm::has_alnum_content;
use proptest::prelude::*;
use serde::{Deserialize, Serialize};
use serde_json::Value;

#[derive(Clone, Debug, Serialize, Deserialize)]
pub struct Case {
    pub tree: MNode,
    pub code: String,
    pub highlight: String,
    pub prefs: Vec<(String, String)>,
    /// which id to highlight: 0 = "", 1 = an id of the expression (index), 2 = foreign id
    pub id_kind: u8,
    pub id_index: u16,
    pub nav: Vec<String>,
}

pub struct C07;

pub const INTERNAL_LETTERS: &str = "𝐖𝐰𝑁𝑏𝐏𝔹𝟙𝐶𝑐𝘄";
pub const TEXT_CODES: &[&str] = &["LaTeX", "ASCIIMath", "ASCIIMath-fi"];

pub fn is_text_code(code: &str) -> bool {
    TEXT_CODES.contains(&code)
}

pub fn judge_braille(code: &str, s: &str, may_highlight: bool) -> Option<(String, String)> {
    if is_text_code(code) {
        for c in s.chars() {
            if ('\u{E000}'..='\u{F8FF}').contains(&c) {
                return Some(("text-code:private-use".into(), format!("U+{:04X}", c as u32)));
            }
            if INTERNAL_LETTERS.contains(c) {
                return Some(("text-code:internal-indicator".into(), format!("{:?}", c)));
            }
            if c.is_control() {
                return Some(("text-code:control-character".into(), format!("U+{:04X}", c as u32)));
            }
        }
        None
    } else {
        for c in s.chars() {
            let mut cp = c as u32;
            let mut c = c;
            // highlighting ORs 0xC0 into whatever character is there: a leaked ASCII character shows up as U+00C0-00FF
            if may_highlight && (0xC0..=0xFF).contains(&cp) {
                cp &= !0xC0;
                c = char::from_u32(cp).unwrap_or(c);
            }
            if !(0x2800..=0x28FF).contains(&cp) {
                let class = if INTERNAL_LETTERS.contains(c) {
                    "internal-indicator"
                } else if c.is_ascii_uppercase() {
                    "ascii-upper"
                } else if c.is_ascii_lowercase() {
                    "ascii-lower"
                } else if c.is_ascii_digit() {
                    "ascii-digit"
                } else if c.is_ascii() {
                    "ascii-punct"
                } else if ('\u{E000}'..='\u{F8FF}').contains(&c) {
                    "private-use"
                } else {
                    "other-character"
                };
                return Some((format!("cell-code:{}", class), format!("{:?} U+{:04X}", c, cp)));
            }
            // U+28CD is the documented row separator of tables (Nemeth/Vietnam rules, MathCAT issue 43), not a highlight
            if !may_highlight && cp >= 0x28C0 && cp != 0x28CD {
                return Some(("cell-code:unexpected-highlight".into(), format!("{:?} U+{:04X} carries dots 7/8", c, cp)));
            }
        }
        None
    }
}

fn char_token(pool: Vec<char>) -> BoxedStrategy<MNode> {
    (proptest::sample::select(pool), prop_oneof![3 => Just("mi"), 3 => Just("mo"), 1 => Just("mtext")]).prop_map(|(c, t)| MNode::leaf(t, &c.to_string())).boxed()
}

impl Property for C07 {
    type Case = Case;
    fn id(&self) -> &'static str {
        "C07"
    }
    fn strategy(&self, tier: Tier) -> BoxedStrategy<Case> {
        let codes = braille_codes();
        let depth = if tier == Tier::Thorough { 5 } else { 4 };
        sel(&codes)
            .prop_flat_map(move |code| {
                let (short, full) = braille_char_pools(&code);
                let keep = |c: &char| !('\u{E000}'..='\u{F8FF}').contains(c) && !('\u{2061}'..='\u{2064}').contains(c) && !c.is_whitespace() && !c.is_control() && !"<>&".contains(*c) && !('\u{2800}'..='\u{28FF}').contains(c);
                let mut short: Vec<char> = short.into_iter().filter(keep).collect();
                let mut full: Vec<char> = full.into_iter().filter(keep).collect();
                if short.is_empty() {
                    short = vec!['x'];
                }
                if full.is_empty() {
                    full = short.clone();
                }
                // tokens: covered characters, plain identifiers / numbers / common operators that are in the tables
                let covered: std::collections::HashSet<char> = short.iter().chain(full.iter()).copied().collect();
                let covered_for_filter = covered.clone();
                let plain = token(&TokCfg::plain()).prop_filter("all characters covered by the code", move |t| t.txt().chars().all(|c| c.is_ascii_alphanumeric() || covered.contains(&c)));
                let variant_tok = (one_char_of("abcxyzABCXYZ0123456789αβγΔΩ"), sel(MATHVARIANTS)).prop_map(|(c, v)| MNode::mi(&c).attr("mathvariant", v));
                let tok = prop_oneof![
                    4 => char_token(short),
                    3 => char_token(full),
                    5 => plain,
                    2 => variant_tok,
                    1 => select_str(ELEMENTS).prop_map(|s| MNode::mi(&s)),
                    1 => sel(&["if", "and", "for all", "cm", "kg", "x is"]).prop_map(|s| MNode::mtext(s)),
                ]
                .boxed();
                let tree = prop_oneof![
                    2 => math_of(structure(tok.clone(), StructCfg { depth, size: 24, wrappers: true, tables: true, multiscripts: true, degenerate: false, mfenced: true, semantics: false })),
                    1 => textbook(tok, TexCfg::default()).prop_map(|n| MNode::math(vec![n])),
                ];
                let prefs = (any::<bool>(), sel(&["Grade1", "Grade2"]), any::<bool>(), any::<bool>()).prop_map(|(spaces, start, drop, short)| vec![("UEB_UseSpacesAroundAllOperators".to_string(), spaces.to_string()), ("UEB_StartMode".to_string(), start.to_string()), ("Vietnam_UseDropNumbers".to_string(), drop.to_string()), ("LaTeX_UseShortName".to_string(), short.to_string())]);
                let nav = proptest::collection::vec(prop_oneof![4 => sel(&NAV_COMMANDS[..17]).prop_map(|s| s.to_string()), 1 => (0usize..30).prop_map(|p| format!("@route:{}", p))], 0..3);
                // the guarantee is about the elements and characters the code covers: no merror (no braille rule),
                // and every token character -- after mathvariant restyling -- is ASCII alphanumeric or a key of the tables
                let covered2 = covered_for_filter.clone();
                let tree = tree.prop_filter("covered by the code's rules and tables", move |t| {
                    !t.any(&|n| n.tag == "merror" || (n.tag == "mfenced" && ["open", "close"].iter().any(|a| n.get_attr(a).map(|v| v.contains('<') || v.contains('>')).unwrap_or(false))))
                        && t.tokens().iter().all(|tok| {
                            let variant = tok.get_attr("mathvariant").unwrap_or("");
                            tok.txt().chars().all(|c| {
                                let m = crate::props::c18::allowed(variant, c)[0];
                                m.is_ascii_alphanumeric() || covered2.contains(&m) || m == ' ' || ('\u{2061}'..='\u{2064}').contains(&m)
                            })
                        })
                });
                (tree, sel(&["Off", "FirstChar", "EndPoints", "All"]), prefs, 0..3u8, any::<u16>(), nav).prop_map(move |(tree, hl, prefs, id_kind, id_index, nav)| Case { tree, code: code.clone(), highlight: hl.to_string(), prefs, id_kind, id_index, nav })
            })
            .boxed()
    }
    fn eval(&self, case: &Case) -> Outcome {
        let mut prefs = vec![("BrailleCode".to_string(), case.code.clone()), ("BrailleNavHighlight".to_string(), case.highlight.clone())];
        prefs.extend(case.prefs.iter().cloned());
        if let Err(e) = apply_prefs(&prefs) {
            return Outcome::reject(&format!("configuration rejected: {}", e.chars().take(50).collect::<String>()));
        }
        // scripts on bases that render nothing are rebuilt by the clean-up in ways that are listed findings of C01/C02
        // (a <none/> can end up as the base of mmultiscripts): their braille is not judged here
        if crate::props::c01::has_degenerate(&case.tree) {
            return Outcome::reject("input class with listed canonicalization findings (degenerate child)");
        }
        let xml = case.tree.to_xml();
        let canon = match api::set_mathml(&xml) {
            Ok(c) => c,
            Err(_) => return Outcome::reject("set_mathml failed"),
        };
        // a canonical form that is itself malformed (a listed C02 finding for degenerate / inconsistent input) sends
        // the braille rules into their "unknown element" fall-backs: that is C02's business, not the alphabet's
        let canon_tree = match parse_xml(&canon) {
            Ok(t) if crate::props::c02::validate(&t, true).is_empty() => t,
            _ => return Outcome::reject("canonical MathML is not valid (C02)"),
        };
        // characters that canonicalization itself put into the expression (two '|' become U+2016, ...) and for which
        // the code defines no braille are passed through by design, like uncovered input characters
        let (short, full) = braille_char_pools(&case.code);
        let mut passthrough: Vec<char> = vec![];
        for t in canon_tree.tokens() {
            for c in t.txt().chars() {
                if !c.is_ascii() && !short.contains(&c) && !full.contains(&c) && !passthrough.contains(&c) {
                    passthrough.push(c);
                }
            }
        }
        let ids = crate::hist::ids_of_mathml(&canon);
        let (id, may_highlight) = match case.id_kind {
            0 => (String::new(), false),
            1 => (crate::hist::pick(&ids, case.id_index).cloned().unwrap_or_default(), case.highlight != "Off"),
            _ => ("not-an-id-of-this-expression".to_string(), false),
        };
        let may_highlight = may_highlight && !id.is_empty();
        let mut viols = vec![];
        let mut classes = vec![format!("code:{}", case.code), format!("highlight:{}", case.highlight)];
        let ctx = |b: &str| format!("code={} highlight={} id={:?} prefs={:?}\nmathml: {}\nbraille: {}", case.code, case.highlight, id, case.prefs, xml, b);
        match api::braille(&id) {
            Ok(b) => {
                let judged: String = b.chars().filter(|c| !passthrough.contains(c)).collect();
                if !passthrough.is_empty() && judged != b {
                    classes.push("uncovered-character-created-by-canonicalization".into());
                }
                if let Some((k, what)) = judge_braille(&case.code, &judged, may_highlight) {
                    // the table row separator U+28CD is taken for a highlight by highlight_braille_chars
                    let k = if k == "cell-code:unexpected-highlight" && b.contains('\u{28CD}') { "cell-code:unexpected-highlight-around-table-row-separator".to_string() } else { k };
                    viols.push((format!("{}:{}", k, case.code), format!("get_braille returned {}\n{}", what, ctx(&b))));
                }
                // (content that canonicalization lost is C01's finding: emptiness is judged against the canonical expression)
                if b.trim_matches(['\u{2800}', ' ']).is_empty() && has_alnum_content(&case.tree) && has_alnum_content(&canon_tree) {
                    viols.push((format!("empty:{}", case.code), format!("braille is empty for an expression with letters/digits\n{}", ctx(&b))));
                }
            }
            Err(Fail::Err(_)) => classes.push("braille-err (C15)".into()),
            Err(Fail::Panic(_)) => classes.push("braille-panic (C08)".into()),
        }
        for c in &case.nav {
            // "@route:<cell>" = the braille display's cursor-routing key (a pure query, C20)
            if let Some(pos) = c.strip_prefix("@route:") {
                let _ = api::node_from_braille_pos(pos.parse().unwrap_or(0));
                continue;
            }
            let _ = api::nav_cmd(c);
            if let Ok(b) = api::nav_braille() {
                classes.push("nav-braille".into());
                let judged: String = b.chars().filter(|c| !passthrough.contains(c)).collect();
                if let Some((k, what)) = judge_braille(&case.code, &judged, false) {
                    let mut k = if k == "cell-code:unexpected-highlight" && b.contains('\u{28CD}') { "cell-code:unexpected-highlight-around-table-row-separator".to_string() } else { k };
                    // the navigation node is one of the empty place holders of mmultiscripts: brailled on its own it falls
                    // into the rule files' "unknown math m l element" fall-back, whose English text reaches the caller
                    if let Ok((nid, _)) = api::nav_id() {
                        let mut tag = String::new();
                        canon_tree.walk(&mut |n| {
                            if n.get_attr("id") == Some(nid.as_str()) {
                                tag = n.tag.clone();
                            }
                        });
                        if tag == "none" || tag == "mprescripts" {
                            k = "nav-braille-of-empty-script-placeholder".to_string();
                        }
                    }
                    viols.push((format!("{}:{}", k, case.code), format!("get_navigation_braille after {} returned {}\n{}", c, what, ctx(&b))));
                }
            }
        }
        // the same request again after navigation and cursor routing: the alphabet and the highlight rule hold for every call
        if !case.nav.is_empty() && viols.is_empty() {
            if let Ok(b) = api::braille(&id) {
                let judged: String = b.chars().filter(|c| !passthrough.contains(c)).collect();
                if let Some((k, what)) = judge_braille(&case.code, &judged, may_highlight) {
                    if !(k == "cell-code:unexpected-highlight" && b.contains('\u{28CD}')) {
                        viols.push((format!("{}:{}:after-navigation", k, case.code), format!("get_braille after {:?} returned {}\n{}", case.nav, what, ctx(&b))));
                    }
                }
            }
        }
        // indicator classes provoked, judged from the input
        let mut ind = 0;
        let toks = case.tree.tokens();
        if toks.iter().any(|t| t.txt().chars().any(|c| c.is_uppercase())) {
            ind += 1;
            classes.push("ind:capital".into());
        }
        if toks.iter().any(|t| t.tag == "mn") {
            ind += 1;
            classes.push("ind:number".into());
        }
        if toks.iter().any(|t| t.get_attr("mathvariant").is_some()) {
            ind += 1;
            classes.push("ind:typeface".into());
        }
        if toks.iter().any(|t| t.txt().chars().any(|c| ('α'..='ω').contains(&c) || ('Α'..='Ω').contains(&c))) {
            ind += 1;
            classes.push("ind:greek".into());
        }
        if case.tree.any(&|n| ["msup", "msub", "msubsup", "mfrac", "msqrt", "mroot"].contains(&n.tag.as_str())) {
            ind += 1;
            classes.push("ind:level".into());
        }
        if toks.iter().any(|t| t.tag == "mtext") {
            ind += 1;
            classes.push("ind:text".into());
        }
        let mut o = Outcome::from_violations(viols, ind >= 2);
        o.classes = classes;
        o
    }
    fn to_json(&self, case: &Case) -> Value {
        let mut v = serde_json::to_value(case).unwrap();
        v["xml"] = Value::String(case.tree.to_xml());
        v
    }
    fn from_json(&self, v: &Value) -> Option<Case> {
        let mut v = v.clone();
        if let Some(o) = v.as_object_mut() {
            o.remove("xml");
        }
        serde_json::from_value(v).ok()
    }
    fn cases(&self) -> (usize, usize) {
        (10000, 300000)
    }
    fn rule(&self) -> String {
        "cases = G-struct / textbook expressions whose characters are ASCII letters/digits or keys of the selected code's unicode.yaml / unicode-full.yaml (typeface variants via mathvariant, capitals, Greek, chemical symbols, tables, text) x every braille code directory x highlight style x code preferences, brailled with no id / an id of the expression / a foreign id, plus get_navigation_braille after up to 2 moves; oracle = cell codes: only U+2800-28FF, no dots 7-8 when highlighting is off or no node of the expression is named; text codes: no private-use character, no internal indicator letter, no control character; non-empty when a token has a letter or digit; non-trivial = >= 2 indicator classes provoked (capital, number, typeface, Greek, level, text)".into()
    }
}
