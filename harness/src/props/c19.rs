//! C19 — illegal intent values are ignored or reported as configured.
use crate::engine::*;
use crate::gen::*;
use crate::props::c13::words;
use crate::tex::count_maximal;
use proptest::prelude::*;
use serde::{Deserialize, Serialize};
use serde_json::Value;

#[derive(Clone, Debug, Serialize, Deserialize)]
pub struct Case {
    pub host: u8,
    pub intent: String,
    pub recovery: String,
    pub kind: String,
    pub lits: Vec<String>,
}

pub struct C19;

pub const HOSTS: &[&str] = &["row", "frac", "sup", "sqrt", "nested", "leaf", "sub", "table-cell", "inner-of-properties-only-row", "row-arg-and-empty-row", "row-arg-between-phantom-and-blank", "row-two-args-and-contentless"];

/// the expression: the host element carries the intent; operands are distinct literals with arg names a, b, c
pub fn build(host: u8, intent: Option<&str>, lits: &[String]) -> (MNode, Vec<String>) {
    let l = |i: usize| lits[i % lits.len()].clone();
    let arg = |n: MNode, a: &str| n.attr("arg", a);
    let (mut h, args): (MNode, Vec<String>) = match HOSTS[(host as usize) % HOSTS.len()] {
        "row" => (MNode::row(vec![arg(MNode::mn(&l(0)), "a"), MNode::mo("+"), arg(MNode::mn(&l(1)), "b")]), vec!["a".into(), "b".into()]),
        "frac" => (MNode::el("mfrac", vec![arg(MNode::mn(&l(0)), "a"), arg(MNode::mn(&l(1)), "b")]), vec!["a".into(), "b".into()]),
        "sup" => (MNode::el("msup", vec![arg(MNode::mn(&l(0)), "a"), arg(MNode::mn(&l(1)), "b")]), vec!["a".into(), "b".into()]),
        "sub" => (MNode::el("msub", vec![arg(MNode::mi("y"), "a"), arg(MNode::mn(&l(1)), "b")]), vec!["a".into(), "b".into()]),
        "sqrt" => (MNode::el("msqrt", vec![arg(MNode::mn(&l(0)), "a")]), vec!["a".into()]),
        "nested" => (MNode::row(vec![arg(MNode::mn(&l(0)), "a"), MNode::mo("×"), MNode::row(vec![MNode::mo("("), arg(MNode::mn(&l(1)), "b"), MNode::mo("−"), arg(MNode::mn(&l(2)), "c"), MNode::mo(")")])]), vec!["a".into(), "b".into(), "c".into()]),
        "leaf" => (MNode::mi("q"), vec![]),
        // rows whose other children have no content (what an editor's unfilled slots or layout helpers leave behind):
        // they vanish during clean-up, the row and its intent must not
        "row-arg-and-empty-row" => (MNode::row(vec![arg(MNode::mn(&l(0)), "a"), MNode::el("mrow", vec![])]), vec!["a".into()]),
        "row-arg-between-phantom-and-blank" => (MNode::row(vec![MNode::el("mphantom", vec![MNode::mi("z")]), arg(MNode::mn(&l(0)), "a"), MNode::mtext(" ")]), vec!["a".into()]),
        "row-two-args-and-contentless" => (MNode::row(vec![arg(MNode::mn(&l(0)), "a"), MNode::mo("+"), MNode::el("mspace", vec![]).attr("width", "1em"), arg(MNode::mn(&l(1)), "b"), MNode::el("mrow", vec![])]), vec!["a".into(), "b".into()]),
        // the generated intent sits on a leaf inside a row that itself has a properties-only intent
        "inner-of-properties-only-row" => {
            let mut inner = MNode::mi("y");
            if let Some(i) = intent {
                inner = inner.attr("intent", i);
            }
            let row = MNode::row(vec![MNode::mn(&l(0)), MNode::mo("+"), inner]).attr("intent", ":foo");
            return (MNode::math(vec![MNode::row(vec![MNode::mi("x"), MNode::mo("="), row])]), vec![]);
        }
        _ => (MNode::el("mtable", vec![MNode::el("mtr", vec![MNode::el("mtd", vec![arg(MNode::mn(&l(0)), "a")]), MNode::el("mtd", vec![arg(MNode::mn(&l(1)), "b")])])]), vec!["a".into(), "b".into()]),
    };
    if let Some(i) = intent {
        h = h.attr("intent", i);
    }
    (MNode::math(vec![MNode::row(vec![MNode::mi("x"), MNode::mo("="), h])]), args)
}

pub fn is_ncname(s: &str) -> bool {
    let mut c = s.chars();
    match c.next() {
        Some(f) if f.is_alphabetic() || f == '_' => c.all(|x| x.is_alphanumeric() || x == '_' || x == '-' || x == '.'),
        _ => false,
    }
}

/// Some(reason) if the string is illegal both in the grammar and in the permissive lexer
pub fn certainly_illegal(s: &str, args: &[String]) -> Option<&'static str> {
    let t: String = s.chars().filter(|c| !c.is_whitespace()).collect();
    if t.is_empty() {
        return Some("blank");
    }
    let mut depth: i32 = 0;
    for c in t.chars() {
        if c == '(' {
            depth += 1;
        } else if c == ')' {
            depth -= 1;
            if depth < 0 {
                return Some("unbalanced-parens");
            }
        }
    }
    if depth != 0 {
        return Some("unbalanced-parens");
    }
    if t.starts_with('(') || t.starts_with(')') || t.starts_with(',') {
        return Some("punctuation-where-a-name-must-start");
    }
    if t.contains("(,") || t.contains(",,") || t.contains(",)") || t.ends_with(',') {
        return Some("missing-argument");
    }
    // references
    let chars: Vec<char> = t.chars().collect();
    let mut i = 0;
    while i < chars.len() {
        if chars[i] == '$' {
            let name: String = chars[i + 1..].iter().take_while(|c| c.is_alphanumeric() || **c == '_' || **c == '-' || **c == '.').collect();
            if name.is_empty() || !is_ncname(&name) {
                return Some("dollar-without-name");
            }
            if !args.contains(&name) {
                return Some("dangling-reference");
            }
            i += name.chars().count();
        }
        i += 1;
    }
    None
}

fn name_strategy() -> BoxedStrategy<String> {
    prop_oneof![
        3 => sel(&["foo", "my-thing", "zorp", "blub-blub", "quux", "wibble-wobble"]).prop_map(|s| s.to_string()),
        2 => sel(&["plus", "times", "power", "sine", "factorial", "binomial", "divide", "minus", "unknown-thing"]).prop_map(|s| s.to_string()),
        1 => "[a-z]{2,6}(-[a-z]{2,5})?",
    ]
    .boxed()
}

/// grammatical intents over the references a, b, c
fn grammatical() -> BoxedStrategy<String> {
    let term = prop_oneof![
        4 => sel(&["$a", "$b", "$c"]).prop_map(|s| s.to_string()),
        2 => name_strategy(),
        1 => "[0-9]{1,2}(\\.[0-9])?",
        1 => sel(&["_", "_of", "-1"]).prop_map(|s| s.to_string()),
    ];
    let prop = prop_oneof![4 => Just(String::new()), 1 => sel(&[":prefix", ":infix", ":postfix", ":function", ":silent", ":foo"]).prop_map(|s| s.to_string())];
    let leaf = (term, prop).prop_map(|(t, p)| format!("{}{}", t, p)).boxed();
    leaf.prop_recursive(3, 12, 3, |inner| (prop_oneof![name_strategy(), inner.clone()], proptest::collection::vec(inner, 0..3), prop_oneof![3 => Just(""), 1 => Just(" ")]).prop_map(|(head, args, sp)| format!("{}({}{})", head, args.join(&format!(",{}", sp)), sp)))
        .boxed()
}

/// does the intent use a name that is also a MathML element name (mo, mi, mrow, ...)?
pub fn uses_mathml_element_name(intent: &str) -> bool {
    const NAMES: &[&str] = &["mi", "mn", "mo", "ms", "mtext", "mrow", "mfrac", "msqrt", "mroot", "msub", "msup", "msubsup", "mover", "munder", "munderover", "mtable", "mtr", "mtd", "math", "mspace", "mstyle", "merror", "mpadded", "mphantom", "mfenced", "menclose", "mmultiscripts", "none", "mprescripts", "semantics", "mglyph"];
    intent.split(|c: char| !(c.is_alphanumeric() || c == '-' || c == '_')).any(|w| NAMES.contains(&w))
}

impl Property for C19 {
    type Case = Case;
    fn id(&self) -> &'static str {
        "C19"
    }
    fn strategy(&self, _tier: Tier) -> BoxedStrategy<Case> {
        let mutant = (grammatical(), any::<u16>(), 0..6u8, sel(&['(', ')', ',', '$', ':', ' ', 'x', '-'])).prop_map(|(s, pos, kind, ch)| {
            let chars: Vec<char> = s.chars().collect();
            if chars.is_empty() {
                return s;
            }
            let p = (pos as usize * chars.len()) >> 16;
            let mut c = chars.clone();
            match kind {
                0 => {
                    c.remove(p);
                }
                1 => c.insert(p, ch),
                2 => c.insert(p, chars[p]),
                3 => c.truncate(p),
                4 => c[p] = ch,
                _ => c.swap(p, (p + 1).min(chars.len() - 1)),
            }
            c.into_iter().collect()
        });
        // name($a,$b,$c), chained name($a)($b)($c) / name($a,$b)($c), nested name(other($a),$b), with literal arguments mixed in
        let honoured = (sel(&["foo", "my-thing", "zorp", "blub-blub", "wibble-wobble"]), 1..=3usize, proptest::collection::vec(any::<bool>(), 3), 0..4u8, sel(&["quux", "inner-thing"])).prop_map(|(n, k, cuts, shape, inner)| {
            let refs = &["$a", "$b", "$c"][..k];
            match shape {
                0 => format!("{}({})", n, refs.join(",")),
                1 => {
                    // chained applications: a new argument list starts where cuts[i] is set
                    let mut out = format!("{}({}", n, refs[0]);
                    for (i, r) in refs.iter().enumerate().skip(1) {
                        out.push_str(if cuts[i] { ")(" } else { "," });
                        out.push_str(r);
                    }
                    out.push(')');
                    out
                }
                2 => format!("{}({}({}){})", n, inner, refs[0], refs[1..].iter().map(|r| format!(",{}", r)).collect::<String>()),
                _ => format!("{}({})(7)({})", n, refs[0], if k > 1 { refs[1..].join(",") } else { "last".to_string() }),
            }
        });
        let arbitrary = prop_oneof![2 => "\\PC{0,12}", 1 => "[ -~]{0,16}", 1 => sel(&["", " ", "(", ")", "$", ":", "f(", "f)", "f(($a)", "$a$b", "f($a)(", "f($zz)", "1.2.3", "-", "--1", "f(:p)", ":p:q", "f($a,)", ",", "f(g(h($a)))", "$a:prefix:infix", "_($a,$b)", "f ( $a , $b )", "\u{1F600}($a)", "é($a)", "a b", "f($a) g($b)", "((($a)))"]).prop_map(|s| s.to_string())];
        let intent = prop_oneof![
            3 => grammatical().prop_map(|s| ("grammatical".to_string(), s)),
            4 => mutant.prop_map(|s| ("mutant".to_string(), s)),
            2 => arbitrary.prop_map(|s| ("arbitrary".to_string(), s)),
            2 => honoured.prop_map(|s| ("honoured-form".to_string(), s)),
        ];
        (0..HOSTS.len() as u8, intent, sel(&["IgnoreIntent", "Error"]), crate::gen::distinct_literals(3, true)).prop_map(|(host, (kind, intent), recovery, lits)| Case { host, intent, recovery: recovery.to_string(), kind, lits }).boxed()
    }
    fn eval(&self, case: &Case) -> Outcome {
        for (k, v) in [("Language", "en"), ("SpeechStyle", "ClearSpeak"), ("Verbosity", "Medium"), ("TTS", "None")] {
            let _ = api::set_pref(k, v);
        }
        if api::set_pref("IntentErrorRecovery", &case.recovery).is_err() {
            return Outcome::reject("recovery preference rejected");
        }
        let host_name = HOSTS[(case.host as usize) % HOSTS.len()];
        let (with, args) = build(case.host, Some(&case.intent), &case.lits);
        let (without, _) = build(case.host, None, &case.lits);
        let illegal = certainly_illegal(&case.intent, &args);
        let xml = with.to_xml();
        let mut viols: Vec<(String, String)> = vec![];
        let mut classes = vec![format!("kind:{}", case.kind), format!("recovery:{}", case.recovery), format!("host:{}", host_name)];
        if let Some(r) = illegal {
            classes.push(format!("illegal:{}", r));
        } else {
            classes.push("unclassified".into());
        }
        let ctx = |extra: &str| format!("intent={:?} on {} host, IntentErrorRecovery={}\nmathml: {}\n{}", case.intent, host_name, case.recovery, xml, extra);
        let canon = match api::set_mathml(&xml) {
            Ok(c) => c,
            Err(Fail::Err(_)) => return Outcome::reject("set_mathml Err").with_classes(classes),
            Err(Fail::Panic(p)) => return Outcome::violation(format!("set_mathml-{}", p.signature()), ctx(&format!("set_mathml panicked: {} at {}", p.msg, p.loc))),
        };
        let r1 = api::speech();
        if let Err(Fail::Panic(p)) = &r1 {
            return Outcome::violation(p.signature(), ctx(&format!("get_spoken_text panicked: {} at {}", p.msg, p.loc)));
        }
        let r2 = api::speech();
        if let Err(Fail::Panic(p)) = &r2 {
            return Outcome::violation(format!("second-call:{}", p.signature()), ctx(&format!("second get_spoken_text panicked: {} at {}", p.msg, p.loc)));
        }
        // (5) side-effect freedom
        match (&r1, &r2) {
            (Ok(a), Ok(b)) if a != b => viols.push(("speech-not-repeatable".into(), ctx(&format!("first:  {}\nsecond: {}", a, b)))),
            (Ok(_), Err(_)) | (Err(_), Ok(_)) => viols.push(("speech-not-repeatable:ok-err".into(), ctx(&format!("first: {:?}\nsecond: {:?}", r1.as_ref().map_err(|e| e.text()), r2.as_ref().map_err(|e| e.text()))))),
            _ => {}
        }
        // the intent attribute is still on the stored expression afterwards (attribute order and data-* bookkeeping
        // are not judged here; observable history dependence is C10's business)
        if let Ok((nav, _)) = api::nav_mathml() {
            let intent_of = |s: &str| parse_xml(s).ok().map(|t| {
                let mut found: Vec<String> = vec![];
                t.walk(&mut |n| {
                    if let Some(i) = n.get_attr("intent") {
                        found.push(i.to_string());
                    }
                });
                found
            });
            let (before, after) = (intent_of(&canon), intent_of(&nav));
            if before.is_some() && before != after {
                viols.push((format!("intent-attribute-lost:{}", case.recovery), ctx(&format!("returned by set_mathml: {}\nafter get_spoken_text:  {}", canon.replace('\n', ""), nav.replace('\n', "")))));
            }
        }
        if case.recovery == "IgnoreIntent" {
            let known_concept = ["plus", "times", "power", "sine", "factorial", "binomial", "divide", "minus"].iter().any(|k| case.intent.contains(k));
            match &r1 {
                // a grammatical intent that names a concept MathCAT knows but with the wrong number of arguments makes the
                // concept's own speech rule fail; the statement does not cover that, so only unknown names are judged
                Err(Fail::Err(_)) if known_concept && illegal.is_none() => classes.push("known-concept-arity-error".into()),
                Err(Fail::Err(e)) => viols.push((format!("ignore-mode-speech-fails:{}", if uses_mathml_element_name(&case.intent) { "concept-named-like-a-mathml-element" } else { illegal.unwrap_or("unclassified") }), ctx(&format!("get_spoken_text returned Err: {}", e.chars().take(300).collect::<String>())))),
                Ok(speech) => {
                    if illegal.is_some() && !case.intent.contains("unit") && !case.intent.contains("literal") {
                        // (2) spoken as if the attribute were absent
                        if api::set_mathml(&without.to_xml()).is_ok() {
                            if let Ok(base) = api::speech() {
                                if words(speech).concat() != words(&base).concat() {
                                    viols.push((format!("illegal-intent-not-ignored:{}", illegal.unwrap()), ctx(&format!("with the attribute:    {}\nwithout the attribute: {}", speech, base))));
                                }
                            }
                        }
                    }
                    if case.kind == "honoured-form" && illegal.is_none() {
                        // (4) name(args) with a made-up concept name is honoured
                        let name = case.intent.split('(').next().unwrap_or("").replace('-', " ");
                        if !speech.contains(&name) {
                            viols.push(("well-formed-intent-not-honoured:name".into(), ctx(&format!("speech does not mention {:?}: {}", name, speech))));
                        }
                        for (i, a) in args.iter().enumerate() {
                            if case.intent.contains(&format!("${}", a)) && host_name != "sub" {
                                let lit = &case.lits[i % case.lits.len()];
                                if count_maximal(speech, lit) == 0 {
                                    viols.push(("well-formed-intent-not-honoured:argument".into(), ctx(&format!("speech does not mention argument ${} = {}: {}", a, lit, speech))));
                                }
                            }
                        }
                    }
                }
                _ => {}
            }
        } else if let (Some(r), Ok(s)) = (illegal, &r1) {
            // (3) certainly illegal under Error must be reported
            viols.push((format!("error-mode-accepts-illegal:{}", r), ctx(&format!("get_spoken_text returned Ok: {}", s))));
        }
        let n_tokens = case.intent.chars().filter(|c| "(),$:".contains(*c)).count();
        let nontrivial = (illegal.is_some() && n_tokens >= 2) || (illegal.is_none() && case.intent.contains('$') && case.intent.matches('(').count() >= 1);
        let mut o = Outcome::from_violations(viols, nontrivial);
        o.classes = classes;
        o
    }
    fn to_json(&self, case: &Case) -> Value {
        let mut v = serde_json::to_value(case).unwrap();
        v["xml"] = Value::String(build(case.host, Some(&case.intent), &case.lits).0.to_xml());
        v
    }
    fn from_json(&self, v: &Value) -> Option<Case> {
        let mut v = v.clone();
        if let Some(o) = v.as_object_mut() {
            o.remove("xml");
        }
        serde_json::from_value(v).ok()
    }
    fn cases(&self) -> (usize, usize) {
        (60000, 600000)
    }
    fn rule(&self) -> String {
        "cases = intent strings from a generator of the grammar in infer_intent.rs (names, numbers, $refs, :properties, nested / chained applications), single-edit mutants of those (delete / insert / duplicate / truncate / replace / swap), arbitrary Unicode and hand-picked edge strings, and the honoured forms name($a,..), chained name($a)($b)($c), nested name(other($a),$b) and name($a)(7)(..) with made-up names; placed on 12 kinds of host element (rows, 2-D elements, a leaf, a table, rows whose other children have no content: empty mrow, mphantom, blank mtext, mspace) inside x = HOST whose operands are distinct decimal literals carrying arg=a,b,c; both values of IntentErrorRecovery; oracle = no panic; IgnoreIntent: speech is Ok, and for strings that a reference recogniser classifies as certainly illegal (blank, unbalanced parentheses, punctuation where a name must start, missing argument, $ without name, dangling $ref) it equals the speech with the attribute removed; Error: certainly illegal strings yield Err; honoured form: speech mentions the name and every referenced literal; speech is repeatable and get_navigation_mathml afterwards equals the MathML returned by set_mathml; non-trivial = illegal with >= 2 structural characters, or legal with a $ref inside an application".into()
    }
}
