//! C16 — split numbers fold into the same number as the unsplit form (differential).
use crate::engine::*;
use crate::gen::*;
use crate::props::c01::set_locale;
use proptest::prelude::*;
use serde::{Deserialize, Serialize};
use serde_json::Value;

#[derive(Clone, Debug, Serialize, Deserialize)]
pub struct Num {
    /// digit groups of the integer part (first 1-3 digits, then 3 each); may be empty with a leading decimal mark
    pub groups: Vec<String>,
    pub frac: Option<String>,
    /// number ends in a decimal mark ("12.")
    pub trailing_mark: bool,
    pub block: String,
    pub decimal: String,
}

impl Num {
    /// pieces: digits and separators alternating, e.g. ["1", ",", "234", ".", "5"]
    pub fn pieces(&self) -> Vec<(String, bool)> {
        let mut v: Vec<(String, bool)> = vec![];
        for (i, g) in self.groups.iter().enumerate() {
            if i > 0 {
                v.push((self.block.clone(), true));
            }
            v.push((g.clone(), false));
        }
        if let Some(f) = &self.frac {
            v.push((self.decimal.clone(), true));
            v.push((f.clone(), false));
        } else if self.trailing_mark {
            v.push((self.decimal.clone(), true));
        }
        v
    }
    pub fn text(&self) -> String {
        self.pieces().into_iter().map(|(s, _)| s).collect()
    }
}

#[derive(Clone, Debug, Serialize, Deserialize)]
pub enum Case {
    /// positive: split spelling must canonicalise like the unsplit one
    Fold { locale: Locale, num: Num, cuts: Vec<u8>, context: u8 },
    /// negative: must not be folded into one number
    NoFold { locale: Locale, kind: String, tokens: Vec<(String, String)> },
}

pub struct C16;

fn is_space(s: &str) -> bool {
    s.chars().all(|c| c.is_whitespace())
}

/// the split token list for a number under the cut choices (one choice per separator)
pub fn split_tokens(num: &Num, cuts: &[u8]) -> Vec<MNode> {
    let pieces = num.pieces();
    let mut toks: Vec<MNode> = vec![];
    let mut cur = String::new();
    let mut sep_i = 0usize;
    let mut pending_prefix = String::new();
    for (text, is_sep) in pieces {
        if !is_sep {
            cur.push_str(&pending_prefix);
            pending_prefix.clear();
            cur.push_str(&text);
            continue;
        }
        let c = cuts.get(sep_i).copied().unwrap_or(0);
        sep_i += 1;
        let space = is_space(&text);
        // a space can only live in its own token (token edges are trimmed); other separators have 5 options
        // glued separators (kept in the left / right digit token) are a known finding: keep them rare so that
        // most of the search runs where the property holds on this tree
        let choice = if space {
            2 + (c % 2)
        } else {
            match c % 16 {
                0 => 0,
                1 => 1,
                2..=7 => 2,
                8..=12 => 3,
                _ => 4,
            }
        };
        match choice {
            0 => {
                // keep in the left token, cut after it
                cur.push_str(&text);
                toks.push(MNode::mn(&cur));
                cur.clear();
            }
            1 => {
                // cut before it, keep in the right token
                if !cur.is_empty() {
                    toks.push(MNode::mn(&cur));
                    cur.clear();
                }
                pending_prefix = text.clone();
            }
            2 | 3 => {
                if !cur.is_empty() {
                    toks.push(MNode::mn(&cur));
                    cur.clear();
                }
                toks.push(if choice == 2 { MNode::mo(&text) } else { MNode::mtext(&text) });
            }
            _ => cur.push_str(&text), // no cut here
        }
    }
    cur.push_str(&pending_prefix);
    if !cur.is_empty() {
        toks.push(MNode::mn(&cur));
    }
    toks
}

pub const CONTEXTS: &[&str] = &["alone", "sum", "after-equals", "exponent", "numerator", "sqrt", "final-period", "final-comma", "product", "table-cell", "own-row-in-fenced-sum", "own-row-after-function"];

pub fn in_context(ctx: u8, number: Vec<MNode>, decimal: &str, block: &str) -> Option<MNode> {
    let name = CONTEXTS[(ctx as usize) % CONTEXTS.len()];
    let n = |v: Vec<MNode>| if v.len() == 1 { v.into_iter().next().unwrap() } else { MNode::row(v) };
    Some(match name {
        "alone" => MNode::math(number),
        "sum" => {
            let mut k = vec![MNode::mi("x"), MNode::mo("+")];
            k.extend(number);
            MNode::math(vec![MNode::row(k)])
        }
        "after-equals" => {
            let mut k = vec![MNode::mi("y"), MNode::mo("=")];
            k.extend(number);
            MNode::math(vec![MNode::row(k)])
        }
        "exponent" => MNode::math(vec![MNode::el("msup", vec![MNode::mi("x"), n(number)])]),
        "numerator" => MNode::math(vec![MNode::el("mfrac", vec![n(number), MNode::mi("y")])]),
        "sqrt" => MNode::math(vec![MNode::el("msqrt", number)]),
        "final-period" => {
            if decimal.contains('.') || block.contains('.') {
                return None; // a trailing "." would be a decimal mark / group separator in this locale: ambiguous by construction
            }
            let mut k = vec![MNode::mi("y"), MNode::mo("=")];
            k.extend(number);
            k.push(MNode::mo("."));
            MNode::math(vec![MNode::row(k)])
        }
        "final-comma" => {
            if decimal.contains(',') {
                return None;
            }
            let mut k = vec![MNode::mi("y"), MNode::mo("=")];
            k.extend(number);
            k.push(MNode::mtext(";"));
            MNode::math(vec![MNode::row(k)])
        }
        // the number (in its own mrow) directly after an open fence, followed by more material before the close:
        // not a list, so it folds
        "own-row-in-fenced-sum" => MNode::math(vec![MNode::row(vec![MNode::mo("("), n(number), MNode::mo("+"), MNode::mi("x"), MNode::mo(")")])]),
        "own-row-after-function" => MNode::math(vec![MNode::row(vec![MNode::mi("f"), MNode::mo("("), n(number), MNode::mo("−"), MNode::mi("x"), MNode::mo(")")])]),
        "product" => {
            let mut k = number;
            k.push(MNode::mo("×"));
            k.push(MNode::mi("z"));
            MNode::math(vec![MNode::row(k)])
        }
        _ => MNode::math(vec![MNode::el("mtable", vec![MNode::el("mtr", vec![MNode::el("mtd", number), MNode::el("mtd", vec![MNode::mi("w")])])])]),
    })
}

fn shape_of(xml: &str) -> Result<String, String> {
    let mut p = parse_xml(xml).map_err(|e| e)?;
    // which white-space character separates the digit groups inside an mn is not significant
    p.walk_mut(&mut |n| {
        if n.tag == "mn" {
            if let Some(t) = &n.text {
                n.text = Some(t.chars().map(|c| if c.is_whitespace() { ' ' } else { c }).collect());
            }
        }
    });
    Ok(p.shape())
}

#[derive(Debug, PartialEq, Eq)]
struct Outs {
    shape: String,
    speech: Result<String, ()>,
    braille: Result<String, ()>,
}

fn outs(xml: &str) -> Result<Outs, String> {
    let c = match api::set_mathml(xml) {
        Ok(c) => c,
        Err(Fail::Err(_)) => return Err("set_mathml Err".into()),
        Err(Fail::Panic(_)) => return Err("set_mathml panic (C08)".into()),
    };
    let shape = shape_of(&c)?;
    Ok(Outs { shape, speech: api::speech().map_err(|_| ()), braille: api::braille("").map_err(|_| ()) })
}

/// separators chosen through Language + the user-level preference DecimalSeparator ('.', ',' or Auto = by language),
/// in both orders of the two calls: an explicit mark is the decimal mark whatever the language, Auto follows the language
fn user_locales() -> Vec<(Locale, Vec<String>)> {
    let mut out = vec![];
    for (lang, auto) in [("en", "."), ("en-gb", "."), ("zh-tw", "."), ("es", ","), ("sv", ","), ("fi", ","), ("vi", ",")] {
        for sep in ["Auto", ".", ","] {
            for order in ["0", "1"] {
                let decimal = if sep == "Auto" { auto } else { sep };
                let block_char = if decimal == "." { "," } else { "." };
                out.push((Locale { name: format!("user:{}:{}:{}", lang, sep, order), block: format!("{} \u{a0}\u{202f}", block_char), decimal: decimal.to_string() }, vec![block_char.to_string(), "\u{a0}".to_string()]));
            }
        }
    }
    out
}

pub fn locales16() -> Vec<(Locale, Vec<String>)> {
    // (locale, block separators a generator may use in that locale)
    let l = locales();
    vec![
        (l[0].clone(), vec![",".into(), "\u{a0}".into(), "\u{202f}".into()]),
        (l[1].clone(), vec![".".into(), "\u{a0}".into(), "\u{202f}".into()]),
        (l[2].clone(), vec!["'".into(), "\u{a0}".into()]),
        (l[3].clone(), vec!["\u{a0}".into(), "\u{202f}".into()]),
    ]
    .into_iter()
    .chain(user_locales())
    .collect()
}

impl Property for C16 {
    type Case = Case;
    fn id(&self) -> &'static str {
        "C16"
    }
    fn strategy(&self, _tier: Tier) -> BoxedStrategy<Case> {
        // half of the cases set the separator pair directly, half go through Language + DecimalSeparator
        let all = locales16();
        let (user, direct): (Vec<_>, Vec<_>) = all.into_iter().partition(|(l, _)| l.name.starts_with("user:"));
        let loc = prop_oneof![1 => proptest::sample::select(direct), 1 => proptest::sample::select(user)].boxed();
        let num = (loc.clone(), "[1-9][0-9]{0,2}", proptest::collection::vec("[0-9]{3}", 0..3), proptest::option::weighted(0.5, "[0-9]{1,4}"), any::<bool>(), any::<u8>(), 0..10u8).prop_map(|((locale, blocks), lead, rest, frac, trailing, bsel, lead_kind)| {
            let block = blocks[(bsel as usize * blocks.len()) >> 8].clone();
            let decimal = locale.decimal.chars().next().unwrap().to_string();
            let mut groups = vec![lead];
            groups.extend(rest);
            // leading decimal mark (".5"): no integer part
            let (groups, frac) = if lead_kind == 0 { (vec![], Some(frac.clone().unwrap_or_else(|| "5".to_string()))) } else { (groups, frac) };
            let trailing_mark = frac.is_none() && trailing && !groups.is_empty() && lead_kind == 1;
            (locale, Num { groups, frac, trailing_mark, block, decimal })
        });
        let fold = (num, proptest::collection::vec(any::<u8>(), 4), any::<u8>()).prop_map(|((locale, num), cuts, context)| Case::Fold { locale, num, cuts, context });
        // negative cases, restricted to what is invalid under every documented pattern
        let nofold = (loc, 0..6u8, "[1-9][0-9]{0,2}", "[0-9]{1,2}", "[0-9]{1,3}").prop_map(|((locale, _), kind, a, b, c)| {
            let d = locale.decimal.chars().next().unwrap().to_string();
            let mn = |s: &str| ("mn".to_string(), s.to_string());
            let mo = |s: &str| ("mo".to_string(), s.to_string());
            let mi = |s: &str| ("mi".to_string(), s.to_string());
            match kind {
                0 => Case::NoFold { locale, kind: "two-decimal-marks".into(), tokens: vec![mn(&a), mo(&d), mn(&b), mo(&d), mn(&c)] },
                1 => Case::NoFold { locale: locales()[0].clone(), kind: "short-group-after-comma".into(), tokens: vec![mn(&a), mo(","), mn(&b)] },
                2 => Case::NoFold { locale, kind: "operator-in-between".into(), tokens: vec![mn(&a), mo("+"), mn(&c)] },
                3 => Case::NoFold { locale: locales()[0].clone(), kind: "list-in-fences".into(), tokens: vec![mi("f"), mo("("), mn(&a), mo(","), mn(&format!("{:0>3}", c)), mo(")")] },
                4 => Case::NoFold { locale: locales()[0].clone(), kind: "set-list".into(), tokens: vec![mo("{"), mn(&a), mo(","), mn(&b), mo(","), mn(&c), mo("}")] },
                _ => Case::NoFold { locale: locales()[0].clone(), kind: "own-row-list-in-fences-then-more".into(), tokens: vec![mo("("), ("mrow-open".to_string(), String::new()), mn(&a), mo(","), mn(&format!("{:0>3}", c)), ("mrow-close".to_string(), String::new()), mo(")"), mo("+"), mi("x")] },
            }
        });
        prop_oneof![6 => fold, 1 => nofold].boxed()
    }
    fn eval(&self, case: &Case) -> Outcome {
        match case {
            Case::Fold { locale, num, cuts, context } => {
                if let Err(e) = set_locale(locale) {
                    return Outcome::reject(&format!("locale rejected {}", e.chars().take(30).collect::<String>()));
                }
                let toks = split_tokens(num, cuts);
                let ctx_name = CONTEXTS[(*context as usize) % CONTEXTS.len()];
                let Some(split) = in_context(*context, toks.clone(), &locale.decimal, &locale.block) else { return Outcome::reject("context not applicable in this locale") };
                let unsplit = in_context(*context, vec![MNode::mn(&num.text())], &locale.decimal, &locale.block).unwrap();
                // a comma that does not stand between two mn's is never taken as part of a number (documented in
                // merge_number_blocks, MathCAT issue 271): leading / trailing decimal commas in their own token are
                // outside the domain
                let edge_comma = |t: &MNode| t.tag != "mn" && t.txt() == ",";
                if toks.first().map(edge_comma).unwrap_or(false) || toks.last().map(edge_comma).unwrap_or(false) {
                    return Outcome::reject("leading/trailing comma in its own token (never folded by design)");
                }
                // a trailing decimal mark in its own token cannot be told from sentence punctuation
                // (ignore_final_punctuation documents that it is left alone)
                if num.trailing_mark && toks.last().map(|t| t.tag != "mn").unwrap_or(false) {
                    return Outcome::reject("trailing decimal mark in its own token (indistinguishable from punctuation)");
                }
                let (sx, ux) = (split.to_xml(), unsplit.to_xml());
                if sx == ux {
                    return Outcome::reject("no cut chosen");
                }
                let a = match outs(&ux) {
                    Ok(a) => a,
                    Err(e) => return Outcome::reject(&e),
                };
                let b = match outs(&sx) {
                    Ok(b) => b,
                    Err(e) => return Outcome::reject(&e),
                };
                let n_cut_tokens = toks.len();
                let nontrivial = n_cut_tokens >= 3 || ctx_name.starts_with("final");
                let sep_class = if is_space(&num.block) { "space" } else { "mark" };
                let classes = vec![format!("locale:{}", locale.name), format!("context:{}", ctx_name), format!("tokens:{}", n_cut_tokens.min(6)), format!("block:{}", sep_class)];
                if a == b {
                    return Outcome::pass(nontrivial).with_classes(classes);
                }
                let field = if a.shape != b.shape {
                    "canonical"
                } else if a.speech != b.speech {
                    "speech"
                } else {
                    "braille"
                };
                // signature: what kind of split failed (not the digits)
                let kinds: Vec<String> = toks.iter().map(|t| if t.tag == "mn" { if t.txt().chars().all(|c| c.is_ascii_digit()) { "d".to_string() } else if t.txt().chars().next().map(|c| !c.is_ascii_digit()).unwrap_or(false) { "sd".to_string() } else if t.txt().chars().last().map(|c| !c.is_ascii_digit()).unwrap_or(false) { "ds".to_string() } else { "dsd".to_string() } } else { t.tag.clone() }).collect();
                // MathCAT treats an mn that already contains a separator as "correctly parsed" and never merges it
                let glued = kinds.iter().any(|k| k == "sd" || k == "ds" || k == "dsd");
                let sig = if glued {
                    "nofold:separator-glued-to-digits".to_string()
                } else if num.block == "'" && toks.iter().any(|t| t.tag != "mn" && t.txt() == "'") {
                    "nofold:apostrophe-group-separator-token".to_string()
                } else if num.block == "\u{202f}" && field == "braille" {
                    "braille-differs:narrow-nbsp-group-separator".to_string()
                } else { format!("nofold:{}:{}:{}:{}", field, locale.name, ctx_name, kinds.join("-")) };
                let mut o = Outcome::violation(sig, format!("number {:?} in locale {} (block {:?}, decimal {:?}), context {}\nunsplit: {}\nsplit:   {}\nunsplit outputs: {:?}\nsplit outputs:   {:?}", num.text(), locale.name, locale.block, locale.decimal, ctx_name, ux, sx, a, b));
                o.classes = classes;
                o
            }
            Case::NoFold { locale, kind, tokens } => {
                if let Err(e) = set_locale(locale) {
                    return Outcome::reject(&format!("locale rejected {}", e.chars().take(30).collect::<String>()));
                }
                // "mrow-open" / "mrow-close" pseudo tokens wrap what lies between them in an author mrow
                let mut kids: Vec<MNode> = vec![];
                let mut group: Option<Vec<MNode>> = None;
                for (t, s) in tokens {
                    match t.as_str() {
                        "mrow-open" => group = Some(vec![]),
                        "mrow-close" => {
                            if let Some(g) = group.take() {
                                kids.push(MNode::row(g));
                            }
                        }
                        _ => match group.as_mut() {
                            Some(g) => g.push(MNode::leaf(t, s)),
                            None => kids.push(MNode::leaf(t, s)),
                        },
                    }
                }
                let xml = MNode::math(vec![MNode::row(kids)]).to_xml();
                let c = match api::set_mathml(&xml) {
                    Ok(c) => c,
                    Err(_) => return Outcome::reject("set_mathml failed"),
                };
                let Ok(p) = parse_xml(&c) else { return Outcome::reject("unparsable") };
                // the joined text of all number tokens must not appear as one mn
                let joined: String = tokens.iter().filter(|(t, _)| t != "mi" && !["(", ")", "{", "}"].contains(&t_s(t, tokens))).map(|(_, s)| s.clone()).collect();
                let digits_tokens: Vec<&(String, String)> = tokens.iter().filter(|(t, _)| t == "mn").collect();
                let first = &digits_tokens[0].1;
                let last = &digits_tokens[digits_tokens.len() - 1].1;
                let bad = p.tokens().iter().any(|t| t.tag == "mn" && t.txt().starts_with(first.as_str()) && t.txt().ends_with(last.as_str()) && t.txt().len() > first.len().max(last.len()) && t.txt().chars().filter(|c| c.is_ascii_digit()).count() == digits_tokens.iter().map(|d| d.1.len()).sum::<usize>());
                let _ = joined;
                if bad {
                    Outcome::violation(format!("folded:{}", kind), format!("tokens {:?} were folded into one number in locale {}\ninput: {}\noutput: {}", tokens, locale.name, xml, c.replace('\n', "")))
                } else {
                    Outcome::pass(true).class(format!("negative:{}", kind))
                }
            }
        }
    }
    fn to_json(&self, case: &Case) -> Value {
        serde_json::to_value(case).unwrap()
    }
    fn from_json(&self, v: &Value) -> Option<Case> {
        serde_json::from_value(v.clone()).ok()
    }
    fn cases(&self) -> (usize, usize) {
        (40000, 600000)
    }
    fn rule(&self) -> String {
        "cases = numbers of the locale grammar (1-3 digit lead group, 3-digit groups, optional fraction, leading/trailing decimal mark) for US / continental / Swiss / space-group settings, every separator either kept in the left token, kept in the right token, made its own mo or mtext, or not cut (spaces only as own NBSP/U+202F tokens), in 10 contexts (alone, sum, after =, exponent, numerator, sqrt, before sentence punctuation, product, table cell); oracle = canonical tree (element names + token text), speech and braille of the split spelling equal those of the single-mn spelling; negative cases (two decimal marks, 1-2 digit group after a comma, operator in between, comma lists in fences) must not fold; non-trivial = >= 3 tokens or trailing punctuation".into()
    }
}

fn t_s<'a>(_t: &'a str, _all: &'a [(String, String)]) -> &'a str {
    ""
}
