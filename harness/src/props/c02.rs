//! C02 — returned MathML is well-formed canonical MathML (validity predicate).
use crate::engine::*;
use crate::gen::*;
use crate::hist::{wild_mathml_string, NAV_COMMANDS};
use proptest::prelude::*;
use serde::{Deserialize, Serialize};
use serde_json::Value;

#[derive(Clone, Debug, Serialize, Deserialize)]
pub struct Case {
    #[serde(default)]
    pub tree: Option<MNode>,
    #[serde(default)]
    pub raw: Option<String>,
    #[serde(default)]
    pub nav: Vec<String>,
}

pub struct C02;

pub const PLANT_ATTR: &str = "data-x";
pub const PLANT_VALUES: &[&str] = &["a&b", "1<2", "p>q", "say \"hi\"", "it's", "&amp;", "<mi>", "a&lt;b", "'\"&<>"];
const REMOVED: &[&str] = &["mfenced", "mstyle", "mpadded", "mphantom", "mspace", "semantics", "annotation", "annotation-xml"];

fn arity(tag: &str) -> Option<usize> {
    match tag {
        "mfrac" | "mroot" | "msub" | "msup" | "munder" | "mover" => Some(2),
        "msubsup" | "munderover" => Some(3),
        _ => None,
    }
}

/// the validity predicate; `is_root` = the tree is a whole returned expression (root must be math)
pub fn validate(n: &MNode, is_root: bool) -> Vec<(String, String)> {
    let mut v = vec![];
    if is_root {
        if n.tag != "math" {
            v.push(("root-not-math".to_string(), format!("root is <{}>", n.tag)));
        } else if n.kids.len() != 1 {
            v.push(("math-children".to_string(), format!("math has {} children", n.kids.len())));
        }
    }
    n.walk(&mut |k| {
        let tag = k.tag.as_str();
        if tag == "#text" {
            return;
        }
        if let Some(a) = arity(tag) {
            if k.kids.len() != a || k.text.is_some() {
                v.push((format!("arity:{}", tag), format!("<{}> has {} children, needs {}", tag, k.kids.len(), a)));
            }
        }
        if tag == "mmultiscripts" {
            let pre: Vec<usize> = k.kids.iter().enumerate().filter(|(_, c)| c.tag == "mprescripts").map(|(i, _)| i).collect();
            let n = k.kids.len();
            let ok = match pre.len() {
                0 => n >= 1 && (n - 1) % 2 == 0,
                1 => pre[0] >= 1 && (pre[0] - 1) % 2 == 0 && (n - pre[0] - 1) % 2 == 0,
                _ => false,
            };
            if !ok {
                v.push(("arity:mmultiscripts".to_string(), format!("mmultiscripts has {} children, mprescripts at {:?}", n, pre)));
            }
        }
        if tag == "mtable" && k.kids.iter().any(|r| r.tag != "mtr" && r.tag != "mlabeledtr") {
            v.push(("table-structure".to_string(), "mtable child is not a row".to_string()));
        }
        if (tag == "mtr" || tag == "mlabeledtr") && k.kids.iter().any(|c| c.tag != "mtd") {
            v.push(("table-structure".to_string(), "row child is not mtd".to_string()));
        }
        if ["mi", "mn", "mo", "mtext", "ms"].contains(&tag) && (k.txt().is_empty() || !k.kids.is_empty()) {
            v.push((format!("empty-token:{}", tag), format!("<{}> is empty or has element children", tag)));
        }
        if ["none", "mprescripts", "mglyph"].contains(&tag) && (!k.kids.is_empty() || !k.txt().is_empty()) {
            v.push((format!("nonempty:{}", tag), format!("<{}> has content", tag)));
        }
        if tag == "mrow" && k.kids.len() < 2 && k.get_attr("intent").is_none() {
            v.push(("short-mrow".to_string(), format!("mrow with {} children and no intent", k.kids.len())));
        }
        if REMOVED.contains(&tag) {
            v.push((format!("wrapper-left:{}", tag), format!("<{}> is still present", tag)));
        }
        if let Some(x) = k.get_attr(PLANT_ATTR) {
            if !PLANT_VALUES.contains(&x) {
                v.push(("escaping:attribute".to_string(), format!("{}={:?} is not one of the planted values", PLANT_ATTR, x)));
            }
        }
    });
    v.dedup_by(|a, b| a.0 == b.0);
    v
}

const KNOWN_ELEMENTS: &[&str] = &[
    "math", "mi", "mn", "mo", "mtext", "ms", "mspace", "mglyph", "mrow", "mfrac", "msqrt", "mroot", "mstyle", "merror", "mpadded", "mphantom", "mfenced", "menclose", "msub", "msup", "msubsup", "munder", "mover", "munderover", "mmultiscripts", "mprescripts", "none", "mtable", "mtr", "mlabeledtr", "mtd", "semantics", "annotation", "annotation-xml", "malignmark", "maligngroup", "#text",
];

/// is the *input* schema-valid presentation MathML (arity, table nesting, empty elements empty, known names)?
pub fn schema_valid(n: &MNode) -> bool {
    if n.tag != "math" {
        return false;
    }
    !n.any(&|k| {
        let tag = k.tag.as_str();
        if tag == "annotation-xml" || tag == "annotation" {
            return false;
        }
        if !KNOWN_ELEMENTS.contains(&tag) {
            return true;
        }
        if let Some(a) = arity(tag) {
            if k.kids.len() != a {
                return true;
            }
        }
        if ["none", "mprescripts", "mspace", "malignmark", "maligngroup"].contains(&tag) && (!k.kids.is_empty() || !k.txt().is_empty()) {
            return true;
        }
        if tag == "mtable" && k.kids.iter().any(|r| r.tag != "mtr" && r.tag != "mlabeledtr") {
            return true;
        }
        if (tag == "mtr" || tag == "mlabeledtr") && k.kids.iter().any(|c| c.tag != "mtd") {
            return true;
        }
        if tag == "mtd" || tag == "mtr" || tag == "mlabeledtr" || tag == "none" || tag == "mprescripts" {
            // only inside their containers -- checked from the parent's side below
        }
        if tag != "mtable" && k.kids.iter().any(|c| c.tag == "mtr" || c.tag == "mlabeledtr") {
            return true;
        }
        if tag != "mtr" && tag != "mlabeledtr" && k.kids.iter().any(|c| c.tag == "mtd") {
            return true;
        }
        if tag != "mmultiscripts" && k.kids.iter().any(|c| c.tag == "none" || c.tag == "mprescripts") {
            return true;
        }
        if tag == "mmultiscripts" {
            let pre: Vec<usize> = k.kids.iter().enumerate().filter(|(_, c)| c.tag == "mprescripts").map(|(i, _)| i).collect();
            let n = k.kids.len();
            let ok = match pre.len() {
                0 => n >= 1 && (n - 1) % 2 == 0,
                1 => pre[0] >= 1 && (pre[0] - 1) % 2 == 0 && (n - pre[0] - 1) % 2 == 0,
                _ => false,
            };
            if !ok || k.kids.first().map(|b| b.tag == "none" || b.tag == "mprescripts").unwrap_or(true) {
                return true;
            }
        }
        if k.is_token() && k.kids.iter().any(|c| c.tag != "mglyph" && c.tag != "#text") {
            return true;
        }
        if tag == "math" && !std::ptr::eq(k, n) {
            return true;
        }
        false
    })
}

impl Property for C02 {
    type Case = Case;
    fn id(&self) -> &'static str {
        "C02"
    }
    fn strategy(&self, tier: Tier) -> BoxedStrategy<Case> {
        let mut tc = TokCfg::everything();
        tc.lookalike = 1;
        let mut sc = StructCfg::full();
        if tier == Tier::Thorough {
            sc.depth = 6;
            sc.size = 60;
        }
        // plant attributes with special characters on random nodes
        let planted = (math_of(structure(token(&tc), sc)), proptest::collection::vec((any::<u16>(), sel(PLANT_VALUES)), 0..3)).prop_map(|(mut t, plants)| {
            let n = t.count_nodes();
            for (pos, val) in plants {
                let target = (pos as usize * n) >> 16;
                let mut i = 0;
                t.walk_mut(&mut |node| {
                    if i == target && node.tag != "#text" {
                        node.attrs.retain(|(k, _)| k != PLANT_ATTR);
                        node.attrs.push((PLANT_ATTR.to_string(), val.to_string()));
                    }
                    i += 1;
                });
            }
            t
        });
        let nav = proptest::collection::vec(sel(&NAV_COMMANDS[..17]).prop_map(|s| s.to_string()), 0..4);
        prop_oneof![
            6 => (planted, nav.clone()).prop_map(|(t, nav)| Case { tree: Some(t), raw: None, nav }),
            3 => (wild_mathml_string(), nav).prop_map(|(s, nav)| Case { tree: None, raw: Some(s), nav }),
        ]
        .boxed()
    }
    fn eval(&self, case: &Case) -> Outcome {
        // default separators (the session may be shared with other cases, which never change preferences here)
        let xml = case.raw.clone().unwrap_or_else(|| case.tree.as_ref().map(|t| t.to_xml()).unwrap_or_default());
        let out = match api::set_mathml(&xml) {
            Ok(s) => s,
            Err(Fail::Err(_)) => return Outcome::reject("set_mathml Err"),
            Err(Fail::Panic(_)) => return Outcome::reject("set_mathml panic (C08)"),
        };
        let mut viols: Vec<(String, String)> = vec![];
        let mut classes = vec![];
        let parsed = match parse_xml(&out) {
            Ok(p) => p,
            Err(e) => {
                return Outcome::violation("not-well-formed", format!("returned string does not parse: {}\ninput:  {}\noutput: {}", e, xml, out));
            }
        };
        for (s, d) in validate(&parsed, true) {
            viols.push((s, format!("{}\ninput:  {}\noutput: {}", d, xml, out.replace('\n', ""))));
        }
        // escaping of planted token text is covered by the round trip of C01; here: every id is attribute-safe
        // navigation MathML is returned through the same serializer
        for c in &case.nav {
            let _ = api::nav_cmd(c);
            if let Ok((s, _)) = api::nav_mathml() {
                classes.push("nav-mathml".to_string());
                match parse_xml(&s) {
                    Err(e) => viols.push(("nav:not-well-formed".to_string(), format!("get_navigation_mathml does not parse: {}\n{}", e, s))),
                    Ok(p) => {
                        for (sig, d) in validate(&p, false) {
                            viols.push((format!("nav:{}", sig), format!("{}\ninput: {}\nnav mathml: {}", d, xml, s.replace('\n', ""))));
                        }
                    }
                }
            }
        }
        // non-trivial: the input itself does not satisfy the predicate (a repair was needed)
        let input_tree = case.tree.clone().or_else(|| parse_xml(&xml).ok());
        let nontrivial = match &input_tree {
            Some(t) => !validate(t, true).is_empty(),
            None => true,
        };
        if let Some(t) = &input_tree {
            for (s, _) in validate(t, true) {
                classes.push(format!("repair:{}", s));
            }
        }
        if case.raw.is_some() {
            classes.push("wild-input-accepted".into());
        }
        // known input classes (shared with C01) name the violation; schema-invalid input that is accepted is its own class
        if !viols.is_empty() {
            let trig = match &input_tree {
                Some(t) if !schema_valid(t) => Some("schema-invalid-input-accepted"),
                Some(t) => crate::props::c01::input_trigger(t),
                None => None,
            };
            if let Some(t) = trig {
                let detail = viols.iter().map(|(s, d)| format!("[{}] {}", s, d)).collect::<Vec<_>>().join("\n");
                viols = vec![(format!("trigger:{}", t), detail)];
            }
        }
        let mut o = Outcome::from_violations(viols, nontrivial);
        o.classes = classes;
        o
    }
    fn to_json(&self, case: &Case) -> Value {
        let mut v = serde_json::to_value(case).unwrap();
        if let Some(t) = &case.tree {
            v["xml"] = Value::String(t.to_xml());
        }
        v
    }
    fn from_json(&self, v: &Value) -> Option<Case> {
        if v.get("tree").map(|t| !t.is_null()).unwrap_or(false) || v.get("raw").map(|t| !t.is_null()).unwrap_or(false) {
            serde_json::from_value(v.clone()).ok()
        } else {
            Some(Case { tree: None, raw: Some(v["xml"].as_str()?.to_string()), nav: vec![] })
        }
    }
    fn cases(&self) -> (usize, usize) {
        (20000, 400000)
    }
    fn rule(&self) -> String {
        "cases = G-struct trees with planted special-character attributes, G-wild mutants and raw strings (only inputs on which set_mathml returns Ok are judged), plus up to 3 navigation moves whose get_navigation_mathml is validated too; oracle = returned string parses (sxd-document), math has one child, mfrac/mroot/msub/msup/munder/mover=2, msubsup/munderover=3 children, mmultiscripts paired with at most one mprescripts, table structure, no empty token, no mrow with <2 children unless intent, no mfenced/mstyle/mpadded/mphantom/mspace/semantics/annotation left, planted attribute values recovered exactly; non-trivial = the input itself violates the predicate".into()
    }
}
