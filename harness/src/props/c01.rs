//! C01 — canonicalization never loses or invents visible content (round trip on the leaf string).
use crate::engine::*;
use crate::gen::*;
use crate::norm::*;
use proptest::prelude::*;
use serde::{Deserialize, Serialize};
use serde_json::Value;

#[derive(Clone, Debug, Serialize, Deserialize)]
pub struct Case {
    pub locale: Locale,
    pub tree: MNode,
}

pub struct C01;

pub fn set_locale(l: &Locale) -> Result<(), String> {
    // "user:<language>:<DecimalSeparator>:<order>": the separators are chosen the way a user does it, through Language
    // and the user-level preference DecimalSeparator (block / decimal of the Locale are what that choice must give)
    if let Some(rest) = l.name.strip_prefix("user:") {
        let parts: Vec<&str> = rest.split(':').collect();
        let (lang, sep, order) = (parts.first().copied().unwrap_or("en"), parts.get(1).copied().unwrap_or("Auto"), parts.get(2).copied().unwrap_or("0"));
        let calls = if order == "0" { [("Language", lang), ("DecimalSeparator", sep)] } else { [("DecimalSeparator", sep), ("Language", lang)] };
        for (k, v) in calls {
            api::set_pref(k, v).map_err(|e| e.text())?;
        }
        return Ok(());
    }
    api::set_pref("BlockSeparators", &l.block).map_err(|e| e.text())?;
    api::set_pref("DecimalSeparators", &l.decimal).map_err(|e| e.text())?;
    Ok(())
}

/// spans of the tokens in the normalised visible string, with the path of tags to each
fn lca_of_range(n: &MNode, side: Side, a: usize, b: usize) -> (String, bool) {
    // returns (tag of lowest element whose visible text covers [a,b), has an empty child)
    fn rec(n: &MNode, side: Side, start: usize, a: usize, b: usize, best: &mut (String, bool)) -> usize {
        let len = visible_norm(n, side).chars().count();
        let end = start + len;
        if start <= a && b <= end {
            let has_empty = n.kids.iter().any(|k| (k.tag == "mrow" && k.kids.is_empty()) || (k.is_token() && k.txt().trim().is_empty()));
            *best = (n.tag.clone(), has_empty);
            if !n.is_token() && n.tag != "mfenced" && n.tag != "mmultiscripts" {
                let mut s = start;
                for k in &n.kids {
                    s = rec(k, side, s, a, b, best);
                }
            }
        }
        end
    }
    let mut best = ("?".to_string(), false);
    rec(n, side, 0, a, b, &mut best);
    best
}

pub fn renders_nothing(k: &MNode) -> bool {
    if k.tag == "none" || k.tag == "mprescripts" || k.tag == "#text" {
        return false;
    }
    if k.is_token() {
        return k.txt().trim().is_empty();
    }
    k.tag == "mphantom" || k.tag == "mspace" || k.kids.is_empty() || (["mrow", "mstyle", "mpadded"].contains(&k.tag.as_str()) && k.kids.iter().all(renders_nothing))
}

/// The known-bad degenerate shapes (one family of defects in clean_mathml's empty-base handling):
///  * a script / fraction / root / under-over element whose *first child* (the base) renders nothing -- the
///    "script on an empty base" paths that convert neighbours into mmultiscripts;
///  * an mmultiscripts with a child that renders nothing.
/// Other degenerate children (an empty script of msubsup, an empty mrow inside a row, ...) are handled
/// correctly by the pinned tree and are NOT part of the class.
pub fn has_degenerate(n: &MNode) -> bool {
    n.any(&|k| {
        let t = k.tag.as_str();
        (["msub", "msup", "msubsup", "munder", "mover", "munderover", "mfrac", "mroot"].contains(&t) && k.kids.first().map(renders_nothing).unwrap_or(false)) || (t == "mmultiscripts" && k.kids.iter().any(renders_nothing))
    })
}

/// two number tokens side by side in one element (a number split without separators); single-child
/// rows / wrappers around a number count as the number
pub fn has_adjacent_mn(n: &MNode) -> bool {
    fn numberish(k: &MNode) -> bool {
        if k.tag == "mn" {
            return true;
        }
        // roman numerals in mi / mtext are re-tagged mn
        if (k.tag == "mi" || k.tag == "mtext") && !k.txt().is_empty() && k.txt().chars().all(|c| "IVXLCDM".contains(c)) || (k.tag == "mi" || k.tag == "mtext") && !k.txt().is_empty() && k.txt().chars().all(|c| "ivxlcdm".contains(c)) {
            return true;
        }
        if ["mrow", "mstyle", "mpadded"].contains(&k.tag.as_str()) {
            let visible: Vec<&MNode> = k.kids.iter().filter(|c| !renders_nothing(c)).collect();
            return visible.len() == 1 && numberish(visible[0]);
        }
        false
    }
    // children that render nothing are removed first and do not keep two numbers apart
    // (only elements that lay their children out in a row: base and script of an msup are not "side by side")
    n.any(&|k| {
        if !["math", "mrow", "msqrt", "mstyle", "mpadded", "menclose", "mtd", "merror", "mphantom"].contains(&k.tag.as_str()) {
            return false;
        }
        let visible: Vec<&MNode> = k.kids.iter().filter(|c| !renders_nothing(c)).collect();
        visible.windows(2).any(|w| numberish(w[0]) && numberish(w[1]))
    })
}

/// an mstyle/mpadded with several children: it is renamed to mrow and cleaned again, and when the merging
/// heuristics (letter runs -> word, digits + separators -> number) leave it one child the lifting loses content
pub fn has_mi_run_in_wrapper(n: &MNode) -> bool {
    n.any(&|k| (k.tag == "mstyle" || k.tag == "mpadded") && k.kids.len() >= 2)
}

/// Input classes for which clean_mathml is known to misbehave (one known finding per class, see
/// known_findings.json); the first matching class names the violation.
pub fn input_trigger(input: &MNode) -> Option<&'static str> {
    let lookalike = regex::Regex::new(r#"xmlns:[[:alpha:]]|class *= *['"](MJX-|data-mjx-)|</?[[:alpha:]]+:"#).unwrap();
    if !all_tokens_consistent(input) {
        Some("type-inconsistent-token")
    } else if renders_nothing(input) || input.any(&|k| !k.is_token() && k.kids.len() >= 2 && k.kids.iter().all(renders_nothing)) || input.kids.iter().all(renders_nothing) {
        // the whole expression, or a row with several children, in which nothing renders
        Some("expression-renders-nothing")
    } else if input.any(&|k| (k.tag == "mtable" || k.tag == "mtr" || k.tag == "mlabeledtr") && k.kids.is_empty()) {
        Some("empty-table-or-row")
    } else if input.any(&|k| k.kids.windows(2).any(|w| (w[0].tag == "mstyle" || w[0].tag == "mpadded") && w[0].tag == w[1].tag)) {
        Some("adjacent-similar-wrappers")
    } else if has_degenerate(input) {
        Some("degenerate-child")
    } else if has_mi_run_in_wrapper(input) {
        Some("multi-child-wrapper")
    } else if has_adjacent_mn(input) {
        // repaired by a fix: commit (listed as fixed): named after the open classes so that it never hides one of them
        Some("adjacent-mn")
    } else if input.tokens().iter().any(|t| lookalike.is_match(t.txt())) {
        // repaired by a fix: commit (listed as fixed): named last so that it never hides another class
        Some("text-resembling-markup")
    } else {
        None
    }
}

pub fn diff_strings(a: &str, b: &str) -> (usize, String, String) {
    let ac: Vec<char> = a.chars().collect();
    let bc: Vec<char> = b.chars().collect();
    let mut p = 0;
    while p < ac.len() && p < bc.len() && ac[p] == bc[p] {
        p += 1;
    }
    let mut s = 0;
    while s < ac.len() - p && s < bc.len() - p && ac[ac.len() - 1 - s] == bc[bc.len() - 1 - s] {
        s += 1;
    }
    (p, ac[p..ac.len() - s].iter().collect(), bc[p..bc.len() - s].iter().collect())
}

pub fn leaf_roundtrip(input: &MNode, output: &MNode) -> Option<(String, String)> {
    let vi = visible_norm(input, Side::Input);
    let vo = visible_norm(output, Side::Output);
    if vi == vo {
        return None;
    }
    let (p, missing, extra) = diff_strings(&vi, &vo);
    let kind = if extra.is_empty() {
        "drop"
    } else if missing.is_empty() {
        "invent"
    } else {
        let mut m: Vec<char> = missing.chars().collect();
        let mut e: Vec<char> = extra.chars().collect();
        m.sort();
        e.sort();
        if m == e {
            "reorder"
        } else {
            "alter"
        }
    };
    let (tag, has_empty) = if kind == "invent" {
        lca_of_range(output, Side::Output, p, p + extra.chars().count())
    } else {
        lca_of_range(input, Side::Input, p, p + missing.chars().count())
    };
    let mut sig = format!("{}:{}{}", kind, tag, if has_empty { ":empty-child" } else { "" });
    if let Some(t) = input_trigger(input) {
        sig = format!("trigger:{}", t);
    }
    let detail = format!("visible input  = {:?}\nvisible output = {:?}\nat char {}: input has {:?}, output has {:?}", vi, vo, p, missing, extra);
    Some((sig, detail))
}

pub fn classes(input: &MNode, output: &MNode) -> (Vec<String>, bool) {
    let mut c = vec![];
    let toks = |n: &MNode| -> Vec<(String, String)> {
        n.tokens().iter().filter(|t| !t.txt().chars().all(|c| is_invisible_op(c) || c.is_whitespace())).map(|t| (t.tag.clone(), t.txt().to_string())).collect()
    };
    let elems = |n: &MNode| -> Vec<String> {
        let mut v = vec![];
        n.walk(&mut |k| {
            if !k.is_token() && k.tag != "mrow" && k.tag != "#text" {
                v.push(k.tag.clone())
            }
        });
        v.sort();
        v
    };
    let tc = toks(input) != toks(output);
    let ec = elems(input) != elems(output);
    if tc {
        c.push("tokens-changed".to_string());
    }
    if ec {
        c.push("elements-changed".to_string());
    }
    let count = |n: &MNode, t: &str| {
        let mut k = 0;
        n.walk(&mut |x| {
            if x.tag == t {
                k += 1
            }
        });
        k
    };
    if count(output, "mmultiscripts") > count(input, "mmultiscripts") {
        c.push("mmultiscripts-conversion".into());
    }
    if count(input, "mfenced") > 0 {
        c.push("mfenced".into());
    }
    if ["mstyle", "mpadded", "mphantom", "semantics", "mspace"].iter().any(|t| count(input, t) > 0) {
        c.push("wrapper-removed".into());
    }
    let script_tags = ["msub", "msup", "msubsup", "munder", "mover", "munderover", "mfrac", "mroot", "mmultiscripts"];
    if input.any(&|n| script_tags.contains(&n.tag.as_str()) && n.kids.iter().any(|k| (k.tag == "mrow" && k.kids.is_empty()) || (k.is_token() && k.txt().trim().is_empty()))) {
        c.push("empty-child-in-2d".into());
    }
    if toks(input).len() > toks(output).len() {
        c.push("tokens-merged".into());
    }
    if toks(input).len() < toks(output).len() {
        c.push("tokens-split".into());
    }
    (c, tc || ec)
}

impl Property for C01 {
    type Case = Case;
    fn id(&self) -> &'static str {
        "C01"
    }
    fn strategy(&self, tier: Tier) -> BoxedStrategy<Case> {
        let mut tc = TokCfg::everything();
        tc.lookalike = 1;
        let mut sc = StructCfg::full();
        if tier == Tier::Thorough {
            sc.depth = 6;
            sc.size = 60;
        }
        // rows in which one merge-sensitive token (dots -> ellipsis, primes, bars, hyphens, ...) recurs with operands in
        // between: the sibling-run heuristics of clean_mathml count such tokens, and random rows almost never repeat one
        // (the operands between them are tokens or small 2-D elements: a run may end at a leaf or at a non-leaf sibling;
        // the recurring token is written as mo, mi or mtext)
        let operand = prop_oneof![
            3 => tok_ident(),
            2 => tok_number(),
            1 => tok_text(),
            1 => (tok_ident(), tok_number()).prop_map(|(a, b)| MNode::el("mfrac", vec![a, b])),
            1 => (tok_ident(), tok_number()).prop_map(|(a, b)| MNode::el("msup", vec![a, b])),
            1 => tok_ident().prop_map(|a| MNode::el("msqrt", vec![a])),
            1 => (tok_ident(), tok_number()).prop_map(|(a, b)| MNode::row(vec![a, MNode::mo("+"), b])),
        ];
        let repeated = (sel(&[".", "-", "′", "'", "|", "_", ",", ":", "=", "!", "*", "…", "~", "/", "\u{a0}", "_", "."]), sel(&["mo", "mo", "mi", "mtext"]), proptest::collection::vec((proptest::bool::weighted(0.5), operand), 3..=9), 0..3u8).prop_map(|(t, tag, items, wrap)| {
            let kids: Vec<MNode> = items.into_iter().map(|(is_t, o)| if is_t { MNode::leaf(tag, t) } else { o }).collect();
            let row = MNode::row(kids);
            MNode::math(vec![match wrap {
                0 => row,
                1 => MNode::el("msqrt", row.kids),
                _ => MNode::row(vec![MNode::mi("x"), MNode::mo("="), row]),
            }])
        });
        let tree = prop_oneof![8 => math_of(structure(token(&tc), sc)), 1 => repeated];
        (locale_strategy(), tree).prop_map(|(locale, tree)| Case { locale, tree }).boxed()
    }
    fn eval(&self, case: &Case) -> Outcome {
        if let Err(e) = set_locale(&case.locale) {
            return Outcome::reject(&format!("locale rejected: {}", e.chars().take(40).collect::<String>()));
        }
        let xml = case.tree.to_xml();
        let out = match api::set_mathml(&xml) {
            Ok(s) => s,
            Err(Fail::Err(_)) => return Outcome::reject("set_mathml Err"),
            Err(Fail::Panic(_)) => return Outcome::reject("set_mathml panic (C08)"),
        };
        let parsed = match parse_xml(&out) {
            Ok(p) => p,
            Err(_) => return Outcome::reject("output unparsable (C02)"),
        };
        let (cls, nontrivial) = classes(&case.tree, &parsed);
        match leaf_roundtrip(&case.tree, &parsed) {
            None => Outcome::pass(nontrivial).with_classes(cls),
            Some((sig, detail)) => {
                let mut o = Outcome::violation(sig, format!("{}\ninput:  {}\noutput: {}", detail, xml, out.replace('\n', "")));
                o.classes = cls;
                o
            }
        }
    }
    fn to_json(&self, case: &Case) -> Value {
        let mut v = serde_json::to_value(case).unwrap();
        v["xml"] = Value::String(case.tree.to_xml());
        v
    }
    fn from_json(&self, v: &Value) -> Option<Case> {
        if v.get("tree").is_some() {
            serde_json::from_value(v.clone()).ok()
        } else {
            let tree = parse_xml(v["xml"].as_str()?).ok()?;
            let locale = v.get("locale").and_then(|l| serde_json::from_value(l.clone()).ok()).unwrap_or_else(|| locales()[0].clone());
            Some(Case { locale, tree })
        }
    }
    fn cases(&self) -> (usize, usize) {
        (20000, 400000)
    }
    fn rule(&self) -> String {
        "cases = (separator locale, arbitrary arity-correct presentation MathML from G-struct incl. degenerate children, wrappers, mfenced, mmultiscripts, tables); oracle = normalised visible leaf string of input equals that of returned MathML; non-trivial = canonicalisation changed the token list or the multiset of non-mrow elements; distinct = hash of the case".into()
    }
}
