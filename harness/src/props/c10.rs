//! C10 — results depend only on the current expression and preferences (reference model = fresh session).
use crate::engine::*;
use crate::gen::*;
use crate::hist::NAV_COMMANDS;
use crate::props::c08::normalize_ids;
use proptest::prelude::*;
use serde::{Deserialize, Serialize};
use serde_json::Value;

#[derive(Clone, Debug, Serialize, Deserialize)]
pub enum H {
    Pref(String, String),
    Expr(String),
    Speech,
    Braille,
    Overview,
    Nav(String),
    NodeFromBraille(usize),
    BraillePos,
}

#[derive(Clone, Debug, Serialize, Deserialize)]
pub struct Case {
    pub history: Vec<H>,
    /// the target assignment, in the order it is established
    pub target: Vec<(String, String)>,
    pub expr: String,
    /// getters in the order (and multiplicity) they are called: 0 speech, 1 braille, 2 overview
    pub getters: Vec<u8>,
    /// away-and-back toggles: (preference, other value, getter called while away)
    pub toggles: Vec<(String, String, u8)>,
    pub noise_threads: u8,
}

pub struct C10;

/// the preferences a history may touch; the target assigns every one of them
pub fn pref_space() -> Vec<(&'static str, Vec<String>)> {
    let s = |v: &[&str]| v.iter().map(|x| x.to_string()).collect::<Vec<_>>();
    vec![
        ("Language", languages()),
        ("SpeechStyle", s(&["ClearSpeak", "SimpleSpeak"])),
        ("Verbosity", s(&["Terse", "Medium", "Verbose"])),
        ("BrailleCode", braille_codes()),
        ("TTS", s(&["None", "SSML"])),
        ("Impairment", s(&["Blindness", "LowVision"])),
        ("CapitalLetters_UseWord", s(&["true", "false"])),
        ("SpeechOverrides_CapitalLetters", s(&["", "cap"])),
        ("BrailleNavHighlight", s(&["Off", "EndPoints", "All"])),
        ("UEB_UseSpacesAroundAllOperators", s(&["true", "false"])),
        ("Vietnam_UseDropNumbers", s(&["true", "false"])),
        ("LaTeX_UseShortName", s(&["true", "false"])),
        ("Overview", s(&["true", "false"])),
        ("NavMode", s(&["Enhanced", "Simple", "Character"])),
        ("Chemistry", s(&["SpellOut", "Off"])),
        ("DecimalSeparator", s(&["Auto", ".", ","])),
        // the derived pair can also be set directly (and one of them alone)
        ("DecimalSeparators", s(&[".", ","])),
        ("BlockSeparators", s(&[", \u{a0}\u{202f}", ". \u{a0}\u{202f}", " \u{a0}\u{202f}"])),
        ("MathRate", s(&["100", "150"])),
        ("PauseFactor", s(&["100", "50"])),
        ("CheckRuleFiles", s(&["Prefs", "All", "None"])),
        ("Bookmark", s(&["true", "false"])),
        ("ClearSpeak_Fractions", s(&["Auto", "Over", "Ordinal"])),
        ("ClearSpeak_Exponents", s(&["Auto", "Ordinal", "AfterPower"])),
    ]
}

fn pref_choice() -> BoxedStrategy<(String, String)> {
    let all: Vec<(String, String)> = pref_space().into_iter().flat_map(|(n, vs)| vs.into_iter().map(move |v| (n.to_string(), v))).collect();
    proptest::sample::select(all).boxed()
}

fn expression() -> BoxedStrategy<String> {
    let operand = prop_oneof![
        4 => tok_ident(),
        3 => "[0-9]{1,3}(\\.[0-9]{1,2})?".prop_map(|s| MNode::mn(&s)),
        1 => "[0-9]{1,3},[0-9]{3}".prop_map(|s| MNode::mn(&s)),
        // a number split over several tokens: whether it is folded depends on the separator preferences
        1 => ("[0-9]{1,3}", sel(&[",", "."]), "[0-9]{2,3}").prop_map(|(a, sep, b)| MNode::row(vec![MNode::mn(&a), MNode::mo(sep), MNode::mn(&b)])),
        1 => one_char_of("ϕϑϵ∞ℝ").prop_map(|s| MNode::mi(&s)),
        // words of the definition files (function names, units, known words, ... of any language or braille code), whole
        // or spelled letter by letter: how they are read depends on which definitions are loaded
        2 => definition_operand(),
    ]
    .boxed();
    textbook(operand, TexCfg { depth: 3, size: 14, tables: true, text: true }).prop_map(|n| MNode::math(vec![n]).to_xml()).boxed()
}

/// the configurations (Language=.. / BrailleCode=..) whose definition files list a word (two or more characters) that
/// occurs in the token text of the expression
fn word_origins(expr: &str) -> Vec<(String, String)> {
    let mut text = String::new();
    let mut in_tag = false;
    for c in expr.chars() {
        match c {
            '<' => in_tag = true,
            '>' => in_tag = false,
            _ if !in_tag => text.push(c),
            _ => {}
        }
    }
    let mut out: Vec<(String, String)> = vec![];
    for w in definition_words() {
        if w.word.chars().count() < 2 || !text.contains(&w.word) {
            continue;
        }
        let o = if let Some(rest) = w.file.strip_prefix("/repo/Rules/Languages/") {
            ("Language".to_string(), rest.split('/').next().unwrap_or("en").to_string())
        } else if let Some(rest) = w.file.strip_prefix("/repo/Rules/Braille/") {
            ("BrailleCode".to_string(), rest.split('/').next().unwrap_or("Nemeth").to_string())
        } else {
            continue;
        };
        // the rarer the set, the more telling the visit: such origins are listed twice
        if w.rare && !out.contains(&o) {
            out.push(o.clone());
        }
        if !out.contains(&o) || w.rare {
            out.push(o);
        }
    }
    out
}

#[derive(Debug, Clone, PartialEq, Eq)]
pub enum Out {
    Ok(String),
    Err,
}

fn flat(r: Api<String>, mathml: &str) -> Result<Out, PanicInfo> {
    match r {
        Ok(s) => Ok(Out::Ok(normalize_ids(&s, mathml))),
        Err(Fail::Err(_)) => Ok(Out::Err),
        Err(Fail::Panic(p)) => Err(p),
    }
}

fn getter(which: u8, mathml: &str) -> Result<Out, PanicInfo> {
    match which % 3 {
        0 => flat(api::speech(), mathml),
        1 => flat(api::braille(""), mathml),
        _ => flat(api::overview(), mathml),
    }
}

pub fn getter_name(which: u8) -> &'static str {
    ["get_spoken_text", "get_braille", "get_overview_text"][(which % 3) as usize]
}

/// fresh session: establish the target, set the expression, call one getter once
fn reference(target: &[(String, String)], expr: &str, which: Option<u8>) -> Result<Out, String> {
    in_session(REPO_RULES, || {
        for (k, v) in target {
            if let Err(e) = api::set_pref(k, v) {
                return Err(format!("reference session rejected {}={}: {}", k, v, e.text().chars().take(60).collect::<String>()));
            }
        }
        let canon = match api::set_mathml(expr) {
            Ok(c) => c,
            Err(Fail::Err(_)) => return Ok(Out::Err),
            Err(Fail::Panic(p)) => return Err(format!("reference panicked: {}", p.signature())),
        };
        match which {
            None => Ok(Out::Ok(normalize_ids(&canon, &canon))),
            Some(w) => getter(w, &canon).map_err(|p| format!("reference panicked: {}", p.signature())),
        }
    })
}

fn noise_session(seed: u64) {
    // an independent session doing its own thing (all state is thread-local)
    let langs = languages();
    let codes = braille_codes();
    in_session(REPO_RULES, || {
        for i in 0..12u64 {
            let k = seed.wrapping_mul(6364136223846793005).wrapping_add(i * 1442695040888963407);
            let _ = api::set_pref("Language", &langs[(k >> 8) as usize % langs.len()]);
            let _ = api::set_pref("BrailleCode", &codes[(k >> 16) as usize % codes.len()]);
            let _ = api::set_mathml("<math><mfrac><mrow><mi>a</mi><mo>+</mo><mn>3.5</mn></mrow><msqrt><mi>Γ</mi></msqrt></mfrac></math>");
            let _ = api::speech();
            let _ = api::braille("");
        }
    });
}

impl C10 {
    fn run_history(&self, case: &Case) -> Outcome {
        let mut classes = vec![];
        let mut switches = std::collections::BTreeSet::new();
        let mut n_exprs = 0;
        let mut n_getters = 0;
        let mut transcript: Vec<String> = vec![];
        for h in &case.history {
            let r: Api<String> = match h {
                H::Pref(k, v) => {
                    switches.insert(k.clone());
                    api::set_pref(k, v).map(|_| String::new())
                }
                H::Expr(x) => {
                    n_exprs += 1;
                    api::set_mathml(x)
                }
                H::Speech => {
                    n_getters += 1;
                    api::speech()
                }
                H::Braille => {
                    n_getters += 1;
                    api::braille("")
                }
                H::Overview => {
                    n_getters += 1;
                    api::overview()
                }
                H::Nav(c) => api::nav_cmd(c),
                H::NodeFromBraille(p) => api::node_from_braille_pos(*p).map(|r| r.0),
                H::BraillePos => api::braille_pos().map(|r| format!("{:?}", r)),
            };
            transcript.push(format!("{:?} -> {}", h, match &r {
                Ok(_) => "Ok".to_string(),
                Err(e) => e.text().chars().take(50).collect::<String>().replace('\n', " "),
            }).chars().take(200).collect());
            if let Err(Fail::Panic(_)) = r {
                return Outcome::reject("panic during the history (C08)");
            }
        }
        for k in &switches {
            classes.push(format!("switch:{}", k));
        }
        // establish the target
        for (k, v) in &case.target {
            if api::set_pref(k, v).is_err() {
                return Outcome::reject("target assignment rejected in the history session");
            }
            transcript.push(format!("target {}={}", k, v));
        }
        // DecimalSeparators / BlockSeparators are also *computed* whenever Language or DecimalSeparator changes value, so
        // the same sequence of assignments can end in different values for them depending on what was set before.
        // "The same preferences" means the same values: both sessions finish by setting the pair to what it reads here.
        let mut effective_target = case.target.clone();
        let mut pinned: Vec<(String, String)> = vec![];
        for k in ["DecimalSeparators", "BlockSeparators"] {
            if let Ok(v) = api::get_pref(k) {
                effective_target.push((k.to_string(), v.clone()));
                pinned.push((k.to_string(), v));
            }
        }
        let tr = |t: &Vec<String>| t.join("\n  ");
        let canon_raw = match api::set_mathml(&case.expr) {
            Ok(c) => c,
            Err(Fail::Err(_)) => return Outcome::reject("probe expression rejected"),
            Err(Fail::Panic(_)) => return Outcome::reject("probe expression panics (C08)"),
        };
        let mut viols: Vec<(String, String)> = vec![];
        let lang = case.target.iter().find(|(k, _)| k == "Language").map(|(_, v)| v.clone()).unwrap_or_default();
        let code = case.target.iter().find(|(k, _)| k == "BrailleCode").map(|(_, v)| v.clone()).unwrap_or_default();
        // canonical MathML
        match reference(&effective_target, &case.expr, None) {
            Err(why) => return Outcome::reject(&why.chars().take(60).collect::<String>()),
            Ok(want) => {
                let got = Out::Ok(normalize_ids(&canon_raw, &canon_raw));
                if got != want {
                    viols.push(("canonical-mathml-depends-on-history".to_string(), format!("set_mathml returned a different tree than a fresh session with the same preferences\nhere:  {:?}\nfresh: {:?}\nexpr: {}\n  {}", got, want, case.expr, tr(&transcript))));
                }
            }
        }
        let mut refs: std::collections::BTreeMap<u8, Out> = std::collections::BTreeMap::new();
        let mut check = |which: u8, when: &str, transcript: &Vec<String>, viols: &mut Vec<(String, String)>| -> Result<(), Outcome> {
            let got = match getter(which, &canon_raw) {
                Ok(g) => g,
                Err(_) => return Err(Outcome::reject("getter panics (C08)")),
            };
            let want = match refs.get(&(which % 3)) {
                Some(w) => w.clone(),
                None => match reference(&effective_target, &case.expr, Some(which)) {
                    Ok(w) => {
                        refs.insert(which % 3, w.clone());
                        w
                    }
                    Err(why) => return Err(Outcome::reject(&why.chars().take(60).collect::<String>())),
                },
            };
            if got != want {
                let what = if which % 3 == 1 { format!("braille:{}", code) } else { format!("{}:{}", getter_name(which), lang) };
                viols.push((format!("{}-depends-on-history:{}", what, when), format!("{} differs from a fresh session with the same preferences and expression ({})\nhere:  {:?}\nfresh: {:?}\nexpr: {}\ntarget: {:?}\n  {}", getter_name(which), when, got, want, case.expr, case.target, transcript.join("\n  "))));
            }
            Ok(())
        };
        let mut called = vec![];
        for g in &case.getters {
            called.push(*g % 3);
            transcript.push(format!("probe {}", getter_name(*g)));
            let when = if called.len() == 1 { "first-getter".to_string() } else { format!("after-{}", getter_name(called[called.len() - 2])) };
            if let Err(o) = check(*g, &when, &transcript, &mut viols) {
                return o;
            }
            if !viols.is_empty() {
                break;
            }
        }
        // away-and-back
        if viols.is_empty() {
            for (k, other, g) in &case.toggles {
                let Some(orig) = effective_target.iter().rev().find(|(kk, _)| kk == k).map(|(_, v)| v.clone()) else { continue };
                if &orig == other {
                    continue;
                }
                if api::set_pref(k, other).is_err() {
                    continue;
                }
                let _ = getter(*g, &canon_raw);
                if api::set_pref(k, &orig).is_err() {
                    return Outcome::reject("cannot toggle back");
                }
                // "back" restores the whole assignment, including the computed pair
                for (pk, pv) in &pinned {
                    if pk != k && api::set_pref(pk, pv).is_err() {
                        return Outcome::reject("cannot toggle back");
                    }
                }
                transcript.push(format!("toggle {} -> {} ({}) -> {}", k, other, getter_name(*g), orig));
                classes.push(format!("toggle:{}", k));
                for w in 0..3u8 {
                    if let Err(o) = check(w, &format!("after-toggling-{}", k), &transcript, &mut viols) {
                        return o;
                    }
                }
                if !viols.is_empty() {
                    break;
                }
            }
        }
        let nontrivial = switches.iter().any(|k| k == "Language" || k == "SpeechStyle" || k == "BrailleCode") && n_exprs >= 1 && n_getters >= 2;
        let mut o = Outcome::from_violations(viols, nontrivial);
        o.classes = classes;
        o
    }
}

impl Property for C10 {
    type Case = Case;
    fn id(&self) -> &'static str {
        "C10"
    }
    fn own_sessions(&self) -> bool {
        true
    }
    fn strategy(&self, tier: Tier) -> BoxedStrategy<Case> {
        let max = if tier == Tier::Thorough { 40 } else { 24 };
        let h = prop_oneof![
            6 => pref_choice().prop_map(|(k, v)| H::Pref(k, v)),
            4 => expression().prop_map(H::Expr),
            3 => Just(H::Speech),
            3 => Just(H::Braille),
            1 => Just(H::Overview),
            2 => sel(&NAV_COMMANDS[..34]).prop_map(|s| H::Nav(s.to_string())),
            1 => (0usize..12).prop_map(H::NodeFromBraille),
            1 => Just(H::BraillePos),
        ];
        // target: every preference of the space, each with a generated value, in a generated order
        let space = pref_space();
        let n = space.len();
        let target = (proptest::collection::vec(any::<u16>(), n), Just(space).prop_shuffle()).prop_map(|(picks, space)| space.into_iter().zip(picks).map(|((name, vals), p)| (name.to_string(), vals[(p as usize * vals.len()) >> 16].clone())).collect::<Vec<_>>());
        let toggles = proptest::collection::vec((pref_choice(), 0..3u8).prop_map(|((k, v), g)| (k, v, g)), 0..3);
        let noise = if tier == Tier::Thorough { prop_oneof![2 => Just(0u8), 1 => 1..4u8].boxed() } else { prop_oneof![5 => Just(0u8), 1 => Just(2u8)].boxed() };
        // "visit": with the configuration a word of the expression comes from (the language or braille code whose
        // definition file lists it) in force, the same expression is loaded and read earlier in the history -- what that
        // configuration leaves behind is then exactly what the target expression could pick up
        let visit = (0..3u8, any::<u16>(), any::<u16>(), 0..2u8);
        (proptest::collection::vec(h, 0..=max), target, expression(), proptest::collection::vec(0..3u8, 1..5), toggles, noise, visit)
            .prop_map(|(mut history, target, expr, getters, toggles, noise_threads, (on, which, at, read))| {
                if on > 0 {
                    let origins = word_origins(&expr);
                    if !origins.is_empty() {
                        let (k, v) = origins[(which as usize * origins.len()) >> 16].clone();
                        let at = (at as usize * (history.len() + 1)) >> 16;
                        let steps = [H::Pref(k, v), H::Expr(expr.clone()), if read == 0 { H::Speech } else { H::Braille }];
                        history.splice(at..at, steps);
                    }
                }
                Case { history, target, expr, getters, toggles, noise_threads }
            })
            .boxed()
    }
    fn eval(&self, case: &Case) -> Outcome {
        if case.noise_threads == 0 {
            return in_session(REPO_RULES, || self.run_history(case));
        }
        // independent sessions run concurrently in other threads
        std::thread::scope(|s| {
            for i in 0..case.noise_threads {
                s.spawn(move || noise_session(i as u64 + 1));
            }
            in_session(REPO_RULES, || self.run_history(case)).class("with-concurrent-sessions")
        })
    }
    fn to_json(&self, case: &Case) -> Value {
        serde_json::to_value(case).unwrap()
    }
    fn from_json(&self, v: &Value) -> Option<Case> {
        serde_json::from_value(v.clone()).ok()
    }
    fn cases(&self) -> (usize, usize) {
        (2500, 60000)
    }
    fn max_shrink_iters(&self) -> usize {
        300
    }
    fn rule(&self) -> String {
        "cases = a history of 0..24 (thorough 40) calls (preference changes over 24 preferences incl. Language, SpeechStyle, BrailleCode, TTS, separators, CheckRuleFiles; other expressions; speech / braille / overview getters; navigation commands; braille cursor routing), then a target assignment of all 24 preferences in a generated order, set_mathml(E), getters in generated order and multiplicity, and up to 2 away-and-back toggles of a preference with a getter called while away; 1 in 6 cases (thorough 1 in 3) run beside 1-3 independent sessions in other threads; oracle = the MathML returned by set_mathml (ids normalised) and every getter result are byte-identical to a fresh session that establishes the same assignment in the same order, sets E and calls that one getter once; non-trivial = history changes language, style or braille code, sets >= 1 earlier expression and calls >= 2 getters".into()
    }
    fn assumptions(&self) -> Vec<String> {
        vec!["interleavings with other threads are sampled, not explored: all MathCAT state is thread-local, the concurrent sessions only confirm that".into(), "an expression is canonicalised with the preferences current at set_mathml time (documented limitation): outputs are only observed while the target assignment is in force".into()]
    }
}
