//! C14 — broken rule files give errors, not crashes, and recovery is complete.
//!
//! Fault injection on a private copy of /repo/Rules (one per worker process, under the run's scratch
//! directory).  A case = (configuration, rule file, fault kind, timing, CheckRuleFiles mode, repair mode,
//! probe expression).  The reference is a fresh session on the pristine /repo/Rules.
use crate::engine::*;
use crate::gen::*;
use crate::props::c08::normalize_ids;
use proptest::prelude::*;
use serde::{Deserialize, Serialize};
use serde_json::Value;
use std::collections::HashMap;
use std::path::Path;
use std::sync::atomic::{AtomicU64, Ordering};
use std::sync::{Mutex, OnceLock};
use std::time::{Duration, SystemTime};

#[derive(Clone, Debug, Serialize, Deserialize, PartialEq)]
pub enum Fault {
    Deleted,
    Empty,
    /// truncated at this fraction of the bytes (cut moved back to a char boundary)
    TruncateAt(u16),
    /// truncated at a top-level YAML entry boundary chosen by this fraction
    TruncateEntry(u16),
    TopMapping,
    TopScalar,
    TopListOfScalars,
    /// one xpath (match:/x:/if:/test:) made syntactically invalid
    BadXPath(u16),
    /// an unknown key added to one rule
    UnknownKey(u16),
    /// one top-level entry replaced by `- Key: {}` / `- Key: 3`
    WrongTypeEntry(u16, u8),
    /// the value of one `key: value` line replaced by a value of another YAML type
    WrongTypeLine(u16, u8),
    InvalidUtf8(u16),
    /// a directory in place of the file
    Directory,
    /// set_rules_dir pointed at a directory that does not exist (the file field is ignored)
    RulesDirMissing,
}

impl Fault {
    pub fn kind(&self) -> &'static str {
        match self {
            Fault::Deleted => "deleted",
            Fault::Empty => "empty",
            Fault::TruncateAt(_) => "truncated-at-byte",
            Fault::TruncateEntry(_) => "truncated-at-entry",
            Fault::TopMapping => "top-level-mapping",
            Fault::TopScalar => "top-level-scalar",
            Fault::TopListOfScalars => "top-level-list-of-scalars",
            Fault::BadXPath(_) => "invalid-xpath",
            Fault::UnknownKey(_) => "unknown-key",
            Fault::WrongTypeEntry(..) => "wrong-type-entry",
            Fault::WrongTypeLine(..) => "wrong-type-value",
            Fault::InvalidUtf8(_) => "invalid-utf8",
            Fault::Directory => "directory-in-place-of-file",
            Fault::RulesDirMissing => "rules-dir-missing",
        }
    }
}

#[derive(Clone, Copy, Debug, Serialize, Deserialize, PartialEq)]
pub enum Timing {
    BeforeLoad,
    AfterLoad,
}

#[derive(Clone, Copy, Debug, Serialize, Deserialize, PartialEq)]
pub enum Repair {
    /// restore the bytes (newer mtime) and set CheckRuleFiles=All
    RestoreCheckAll,
    /// leave the fault in place and point set_rules_dir at the pristine directory
    RepointPristine,
    /// restore the bytes and call set_rules_dir on the same directory again
    RestoreRepoint,
    /// put the original file back *with its original modification time* (a rename back, cp -p, a restored backup) and set
    /// CheckRuleFiles=All
    RestoreOriginalTime,
}

#[derive(Clone, Debug, Serialize, Deserialize)]
pub struct Case {
    pub lang: String,
    pub style: String,
    pub code: String,
    /// path relative to the rules directory
    pub file: String,
    pub fault: Fault,
    pub timing: Timing,
    /// CheckRuleFiles while the fault is in place
    pub crf: String,
    /// CheckRuleFiles switched to this value (and probed again) while the fault is still in place
    pub mid_crf: Option<String>,
    pub repair: Repair,
    pub expr: usize,
}

pub struct C14;

pub const EXPRS: &[&str] = &[
    "<math><mfrac><mrow><mi>x</mi><mo>+</mo><mn>1</mn></mrow><msqrt><mi>y</mi></msqrt></mfrac><mo>=</mo><msup><mi>sin</mi><mn>2</mn></msup><mi>θ</mi></math>",
    // characters that are only in unicode-full.yaml
    "<math><mi>𝔄</mi><mo>⊛</mo><mi>ℵ</mi><mo>⫷</mo><mn>3.5</mn><mo>⨌</mo><mi>ϰ</mi></math>",
    "<math><mrow><mo>(</mo><mtable><mtr><mtd><mn>1</mn></mtd><mtd><mi>a</mi></mtd></mtr><mtr><mtd><msub><mi>H</mi><mn>2</mn></msub><mi>O</mi></mtd><mtd><mn>4</mn></mtd></mtr></mtable><mo>)</mo></mrow><mo>≤</mo><munderover><mo>∑</mo><mrow><mi>i</mi><mo>=</mo><mn>0</mn></mrow><mi>n</mi></munderover><msub><mi>a</mi><mi>i</mi></msub></math>",
];

// ------------------------------------------------------------------------------------------
// the private copy

fn copy_tree(from: &Path, to: &Path) {
    std::fs::create_dir_all(to).expect("create dir in private rules copy");
    let mut entries: Vec<_> = std::fs::read_dir(from).expect("read rules dir").filter_map(|e| e.ok()).collect();
    entries.sort_by_key(|e| e.file_name());
    for e in entries {
        let p = e.path();
        let t = to.join(e.file_name());
        if p.is_dir() {
            copy_tree(&p, &t);
        } else {
            std::fs::copy(&p, &t).expect("copy rule file");
        }
    }
}

/// one private copy per process
pub fn private_rules() -> String {
    static DIR: OnceLock<String> = OnceLock::new();
    DIR.get_or_init(|| {
        let d = format!("{}/rules", scratch_dir());
        let _ = std::fs::remove_dir_all(&d);
        copy_tree(Path::new(REPO_RULES), Path::new(&d));
        d
    })
    .clone()
}

/// A clock of our own for the time stamps: every write gets an mtime strictly newer than every earlier one
/// (reloading is driven by mtime comparisons; two writes within the file system's granularity must not tie).
fn next_mtime() -> SystemTime {
    static BASE: OnceLock<SystemTime> = OnceLock::new();
    static TICK: AtomicU64 = AtomicU64::new(1);
    let base = *BASE.get_or_init(|| SystemTime::now() + Duration::from_secs(60));
    base + Duration::from_secs(2 * TICK.fetch_add(1, Ordering::SeqCst))
}

fn write_with_new_mtime(path: &str, bytes: &[u8]) {
    let p = Path::new(path);
    if p.is_dir() {
        let _ = std::fs::remove_dir_all(p);
    }
    std::fs::write(p, bytes).expect("write rule file in private copy");
    let f = std::fs::File::options().write(true).open(p).expect("open for mtime");
    f.set_modified(next_mtime()).expect("set mtime");
}

/// every rule file a configuration can reach (superset: all YAML of the language, its region, the braille code, Intent/ and the top level)
pub fn reachable_files(lang: &str, code: &str) -> Vec<String> {
    let mut out = vec![];
    let root = Path::new(REPO_RULES);
    let mut add_dir = |rel: &str, recurse: bool| {
        fn walk(root: &Path, rel: &str, recurse: bool, out: &mut Vec<String>) {
            let Ok(rd) = std::fs::read_dir(root.join(rel)) else { return };
            let mut es: Vec<_> = rd.filter_map(|e| e.ok()).collect();
            es.sort_by_key(|e| e.file_name());
            for e in es {
                let name = e.file_name().to_string_lossy().to_string();
                let r = if rel.is_empty() { name.clone() } else { format!("{}/{}", rel, name) };
                if e.path().is_dir() {
                    if recurse {
                        walk(root, &r, recurse, out);
                    }
                } else if name.ends_with(".yaml") {
                    out.push(r);
                }
            }
        }
        walk(root, rel, recurse, &mut out);
    };
    add_dir("", false);
    add_dir("Intent", true);
    let mut parts = lang.split('-');
    let l = parts.next().unwrap_or("en");
    add_dir(&format!("Languages/{}", l), false);
    add_dir(&format!("Languages/{}/SharedRules", l), true);
    if let Some(region) = parts.next() {
        add_dir(&format!("Languages/{}/{}", l, region), true);
    }
    add_dir(&format!("Braille/{}", code), true);
    out
}

pub fn file_kind(rel: &str) -> &'static str {
    let base = rel.rsplit('/').next().unwrap_or(rel);
    let braille = rel.starts_with("Braille/");
    if rel == "prefs.yaml" {
        "prefs"
    } else if base == "definitions.yaml" {
        if braille {
            "braille-definitions"
        } else if rel == "definitions.yaml" {
            "definitions-top"
        } else {
            "definitions"
        }
    } else if base == "unicode.yaml" {
        if braille {
            "braille-unicode"
        } else {
            "unicode"
        }
    } else if base == "unicode-full.yaml" {
        if braille {
            "braille-unicode-full"
        } else {
            "unicode-full"
        }
    } else if base == "navigate.yaml" {
        "navigate"
    } else if base == "overview.yaml" {
        "overview"
    } else if rel == "intent.yaml" || rel.starts_with("Intent/") {
        "intent"
    } else if rel.contains("/SharedRules/") {
        "shared-rules"
    } else if braille {
        "braille-rules"
    } else if base.ends_with("_Rules.yaml") {
        "style-rules"
    } else {
        "other"
    }
}

// ------------------------------------------------------------------------------------------
// faults

fn pick(n: usize, frac: u16) -> usize {
    if n == 0 {
        0
    } else {
        ((frac as usize) * n) >> 16
    }
}

/// byte offsets of top-level entries (lines at indentation <= 1 that start an entry)
fn entry_offsets(text: &str) -> Vec<usize> {
    let mut v = vec![];
    let mut off = 0;
    for line in text.split_inclusive('\n') {
        let t = line.trim_start_matches(' ');
        let indent = line.len() - t.len();
        if indent <= 1 && (t.starts_with("- ") || t.starts_with("-\n") || (t.chars().next().map(|c| c.is_alphabetic()).unwrap_or(false) && t.contains(':'))) {
            v.push(off);
        }
        off += line.len();
    }
    v
}

/// None = the fault kind does not apply to this file (case rejected)
pub fn apply_fault(original: &[u8], fault: &Fault) -> Option<Vec<u8>> {
    let text = String::from_utf8_lossy(original).to_string();
    match fault {
        Fault::Deleted | Fault::Directory | Fault::RulesDirMissing => Some(vec![]),
        Fault::Empty => Some(vec![]),
        Fault::TruncateAt(f) => {
            let mut cut = pick(text.len(), *f);
            while cut > 0 && !text.is_char_boundary(cut) {
                cut -= 1;
            }
            Some(text[..cut].as_bytes().to_vec())
        }
        Fault::TruncateEntry(f) => {
            let offs = entry_offsets(&text);
            if offs.len() < 2 {
                return None;
            }
            let i = 1 + pick(offs.len() - 1, *f);
            Some(text[..offs[i]].as_bytes().to_vec())
        }
        Fault::TopMapping => Some(b"---\nverif_key: verif value\nother: [1, 2]\n".to_vec()),
        Fault::TopScalar => Some(b"--- just a string\n".to_vec()),
        Fault::TopListOfScalars => Some(b"---\n- 1\n- two\n- [3]\n".to_vec()),
        Fault::BadXPath(f) => {
            let re = regex::Regex::new(r#"(?m)^(\s*(?:- )?(?:match|x|if|test): ")(.*)"[ \t]*(#.*)?$"#).unwrap();
            let ms: Vec<_> = re.captures_iter(&text).collect();
            if ms.is_empty() {
                return None;
            }
            let c = &ms[pick(ms.len(), *f)];
            let m = c.get(0).unwrap();
            let bad = format!("{}{} ]] [ ((\"", &c[1], &c[2]);
            Some(format!("{}{}{}", &text[..m.start()], bad, &text[m.end()..]).into_bytes())
        }
        Fault::UnknownKey(f) => {
            let re = regex::Regex::new(r"(?m)^(\s*)- name: .*$").unwrap();
            let ms: Vec<_> = re.captures_iter(&text).collect();
            if ms.is_empty() {
                return None;
            }
            let c = &ms[pick(ms.len(), *f)];
            let m = c.get(0).unwrap();
            let ins = format!("\n{}  verif_unknown_key: 3", &c[1]);
            Some(format!("{}{}{}", &text[..m.end()], ins, &text[m.end()..]).into_bytes())
        }
        Fault::WrongTypeEntry(f, variant) => {
            let offs = entry_offsets(&text);
            if offs.is_empty() {
                return None;
            }
            let i = pick(offs.len(), *f);
            let end = offs.get(i + 1).copied().unwrap_or(text.len());
            let entry = &text[offs[i]..end];
            let re = regex::Regex::new(r#"^(\s*-\s*)("[^"]*"|[A-Za-z_][A-Za-z0-9_-]*)\s*:"#).unwrap();
            let c = re.captures(entry)?;
            let val = match variant % 4 {
                0 => "{}",
                1 => "3",
                2 => "[[1], {a: b}]",
                _ => "\"a string\"",
            };
            Some(format!("{}{}{}: {}\n{}", &text[..offs[i]], &c[1], &c[2], val, &text[end..]).into_bytes())
        }
        Fault::WrongTypeLine(f, variant) => {
            let re = regex::Regex::new(r#"(?m)^(\s*(?:- )?[A-Za-z_]+): ([^\n#]*[^\s#])[ \t]*(#.*)?$"#).unwrap();
            let ms: Vec<_> = re.captures_iter(&text).collect();
            if ms.is_empty() {
                return None;
            }
            let c = &ms[pick(ms.len(), *f)];
            let m = c.get(0).unwrap();
            let val = match variant % 4 {
                0 => "{verif: [1, 2]}",
                1 => "3.5",
                2 => "[[]]",
                _ => "~",
            };
            Some(format!("{}{}: {}{}", &text[..m.start()], &c[1], val, &text[m.end()..]).into_bytes())
        }
        Fault::InvalidUtf8(f) => {
            let mut b = original.to_vec();
            let at = pick(b.len(), *f);
            b.splice(at..at, [0xFFu8, 0xFE, 0xC0]);
            Some(b)
        }
    }
}

fn original_times() -> &'static Mutex<HashMap<String, SystemTime>> {
    static T: OnceLock<Mutex<HashMap<String, SystemTime>>> = OnceLock::new();
    T.get_or_init(|| Mutex::new(HashMap::new()))
}

fn inject(private: &str, case: &Case, original: &[u8]) -> bool {
    let path = format!("{}/{}", private, case.file);
    if let Ok(t) = std::fs::metadata(&path).and_then(|m| m.modified()) {
        original_times().lock().unwrap().insert(path.clone(), t);
    }
    match &case.fault {
        Fault::RulesDirMissing => true,
        Fault::Deleted => std::fs::remove_file(&path).is_ok(),
        Fault::Directory => std::fs::remove_file(&path).is_ok() && std::fs::create_dir(&path).is_ok(),
        f => match apply_fault(original, f) {
            Some(b) if b != original => {
                write_with_new_mtime(&path, &b);
                true
            }
            _ => false,
        },
    }
}

fn restore_with_original_time(private: &str, case: &Case, original: &[u8]) {
    if case.fault == Fault::RulesDirMissing {
        return;
    }
    let path = format!("{}/{}", private, case.file);
    write_with_new_mtime(&path, original);
    if let Some(t) = original_times().lock().unwrap().get(&path).copied() {
        if let Ok(f) = std::fs::File::options().write(true).open(&path) {
            let _ = f.set_modified(t);
        }
    }
}

fn restore(private: &str, case: &Case, original: &[u8]) {
    if case.fault != Fault::RulesDirMissing {
        write_with_new_mtime(&format!("{}/{}", private, case.file), original);
    }
}

// ------------------------------------------------------------------------------------------
// probes

type ProbeOut = Vec<(&'static str, Result<String, String>)>;

fn flat(r: Api<String>) -> Result<Result<String, String>, PanicInfo> {
    match r {
        Ok(s) => Ok(Ok(s)),
        Err(Fail::Err(e)) => Ok(Err(e)),
        Err(Fail::Panic(p)) => Err(p),
    }
}

fn probes(expr: &str) -> Result<ProbeOut, (String, PanicInfo)> {
    let mut out: ProbeOut = vec![];
    let canon = flat(api::set_mathml(expr)).map_err(|p| ("set_mathml".to_string(), p))?;
    let m = canon.clone().unwrap_or_default();
    out.push(("set_mathml", canon.map(|s| normalize_ids(&s, &m))));
    out.push(("get_spoken_text", flat(api::speech()).map_err(|p| ("get_spoken_text".to_string(), p))?.map(|s| normalize_ids(&s, &m))));
    out.push(("get_overview_text", flat(api::overview()).map_err(|p| ("get_overview_text".to_string(), p))?.map(|s| normalize_ids(&s, &m))));
    out.push(("get_braille", flat(api::braille("")).map_err(|p| ("get_braille".to_string(), p))?));
    out.push(("navigate:ZoomIn", flat(api::nav_cmd("ZoomIn")).map_err(|p| ("do_navigate_command".to_string(), p))?.map(|s| normalize_ids(&s, &m))));
    out.push(("navigate:MoveNext", flat(api::nav_cmd("MoveNext")).map_err(|p| ("do_navigate_command".to_string(), p))?.map(|s| normalize_ids(&s, &m))));
    out.push(("get_navigation_braille", flat(api::nav_braille()).map_err(|p| ("get_navigation_braille".to_string(), p))?));
    Ok(out)
}

fn config_prefs(case: &Case, crf: &str) -> Vec<(&'static str, String)> {
    vec![("TTS", "None".to_string()), ("Language", case.lang.clone()), ("SpeechStyle", case.style.clone()), ("BrailleCode", case.code.clone()), ("CheckRuleFiles", crf.to_string())]
}

fn reference_for(case: &Case) -> Result<ProbeOut, String> {
    static CACHE: OnceLock<Mutex<HashMap<String, Result<ProbeOut, String>>>> = OnceLock::new();
    let key = format!("{}|{}|{}|{}", case.lang, case.style, case.code, case.expr);
    let cache = CACHE.get_or_init(|| Mutex::new(HashMap::new()));
    if let Some(r) = cache.lock().unwrap().get(&key) {
        return r.clone();
    }
    let c = case.clone();
    let r = in_raw_session(move || {
        if let Err(e) = api::set_rules_dir(REPO_RULES) {
            return Err(format!("reference: set_rules_dir failed: {}", e.text()));
        }
        for (k, v) in config_prefs(&c, "Prefs") {
            if let Err(e) = api::set_pref(k, &v) {
                return Err(format!("reference: {}={} rejected: {}", k, v, e.text().chars().take(80).collect::<String>()));
            }
        }
        probes(EXPRS[c.expr % EXPRS.len()]).map_err(|(w, p)| format!("reference: {} panicked: {}", w, p.signature()))
    });
    cache.lock().unwrap().insert(key, r.clone());
    r
}

/// does the error text name the faulted file
fn names_file(err: &str, private: &str, case: &Case) -> bool {
    let e = err.replace('\\', "/");
    if case.fault == Fault::RulesDirMissing {
        return e.contains(&format!("{}-missing", private)) || e.contains("rules-missing");
    }
    // the file name itself (errors such as "Looking for file: navigate.yaml" give directory and name separately)
    let base = case.file.rsplit('/').next().unwrap_or(&case.file);
    e.contains(base)
}

struct SessionResult {
    viols: Vec<(String, String)>,
    seen: bool,
    reject: Option<String>,
    log: Vec<String>,
    secondary: usize,
}

/// error texts carry the rules path and generated ids: normalised before comparing with the reference
fn norm_err(r: &Result<String, String>, private: &str) -> Result<String, String> {
    let ids = regex::Regex::new(r"M[0-9a-z]{7}-").unwrap();
    match r {
        Ok(s) => Ok(s.clone()),
        Err(e) => Err(ids.replace_all(&e.replace(private, REPO_RULES), "M#-").to_string()),
    }
}

fn short(r: &Result<String, String>) -> String {
    match r {
        Ok(s) => format!("Ok({})", s.replace('\n', " ").chars().take(60).collect::<String>()),
        Err(e) => format!("Err({})", e.replace('\n', " | ").chars().take(260).collect::<String>()),
    }
}

impl C14 {
    fn run_session(&self, case: &Case, private: &str, original: &[u8], reference: &ProbeOut) -> SessionResult {
        let expr = EXPRS[case.expr % EXPRS.len()];
        let kind = file_kind(&case.file);
        let mut res = SessionResult { viols: vec![], seen: false, reject: None, log: vec![], secondary: 0 };
        let mut reported = false;
        let mut secondary = 0usize;
        // judge one result obtained while the fault is in place
        macro_rules! judge {
            ($name:expr, $r:expr, $refr:expr) => {{
                let r: &Result<String, String> = $r;
                let refr: Option<&Result<String, String>> = $refr;
                res.log.push(format!("[fault] {} -> {}", $name, short(r)));
                match r {
                    Err(e) => {
                        if refr.map(|x| norm_err(x, private)) != Some(norm_err(r, private)) {
                            res.seen = true;
                            if names_file(e, private, case) {
                                reported = true;
                            } else if e.starts_with("Pattern match/replacement failure") || e.contains("No match found") || e.contains("MathML has not been set") {
                                // not load errors: a shortened file that is still a well-formed rule file, or the documented
                                // fall-back for a missing file, loads without complaint (nothing to report) and a rule or
                                // variable is then missing at match time; and after a failed set_mathml there is no
                                // expression to navigate
                                secondary += 1;
                            } else if !reported {
                                // the first error the caller gets must name the file; once a call has done so, failures of
                                // further calls on the half-initialised session are consequences of continuing after it
                                res.viols.push((format!("error-does-not-name-file:{}:{}", kind, case.fault.kind()), format!("{} failed while {} was {} but the error does not name the file:\n{}", $name, case.file, case.fault.kind(), e.chars().take(600).collect::<String>())));
                                reported = true;
                            } else {
                                secondary += 1;
                            }
                        }
                    }
                    Ok(_) => {
                        if refr.is_some() && refr != Some(r) {
                            res.seen = true;
                        }
                        reported = false; // a call succeeded again: the next failure is a new report
                    }
                }
            }};
        }
        macro_rules! panic_viol {
            ($phase:expr, $what:expr, $p:expr) => {{
                let p: &PanicInfo = $p;
                res.log.push(format!("[{}] {} -> PANIC {} at {}", $phase, $what, p.msg, p.loc));
                res.viols.push((p.signature(), format!("{} panicked ({}; file {} {}): {} at {}", $what, $phase, case.file, case.fault.kind(), p.msg, p.loc)));
            }};
        }
        let injected_before = case.timing == Timing::BeforeLoad || case.fault == Fault::RulesDirMissing;
        if injected_before && !inject(private, case, original) {
            res.reject = Some("fault kind does not apply to this file".into());
            return res;
        }
        let dir = if case.fault == Fault::RulesDirMissing { format!("{}-missing", private) } else { private.to_string() };
        let mut rules_ok = false;
        match api::set_rules_dir(&dir) {
            Ok(()) => {
                rules_ok = true;
                res.log.push("set_rules_dir -> Ok".into());
            }
            Err(Fail::Err(e)) => {
                if !injected_before {
                    res.reject = Some(format!("set_rules_dir on the intact private copy failed: {}", e.chars().take(80).collect::<String>()));
                    return res;
                }
                judge!("set_rules_dir", &Err(e), None);
            }
            Err(Fail::Panic(p)) => {
                panic_viol!("fault", "set_rules_dir", &p);
                return res;
            }
        }
        if rules_ok {
            for (k, v) in config_prefs(case, &case.crf) {
                match api::set_pref(k, &v) {
                    Ok(()) => {}
                    Err(Fail::Err(e)) => {
                        if !injected_before {
                            res.reject = Some(format!("{}={} rejected on the intact copy", k, v));
                            return res;
                        }
                        judge!(&format!("set_preference({},{})", k, v), &Err(e), None);
                    }
                    Err(Fail::Panic(p)) => {
                        panic_viol!("fault", format!("set_preference({},{})", k, v), &p);
                        return res;
                    }
                }
            }
        }
        if !injected_before {
            // a successful load first: outputs must already equal the reference
            match probes(expr) {
                Ok(p0) => {
                    if &p0 != reference {
                        res.reject = Some("outputs on the intact private copy differ from the reference (harness problem)".into());
                        return res;
                    }
                }
                Err((w, p)) => {
                    res.reject = Some(format!("{} panics on the intact copy: {}", w, p.signature()));
                    return res;
                }
            }
            if !inject(private, case, original) {
                res.reject = Some("fault kind does not apply to this file".into());
                return res;
            }
            res.log.push(format!("-- fault injected after a successful load: {} {}", case.file, case.fault.kind()));
        }
        // calls while the fault is in place
        let rounds: Vec<Option<&String>> = if case.mid_crf.is_some() { vec![None, case.mid_crf.as_ref()] } else { vec![None] };
        for round in rounds {
            if let Some(m) = round {
                match api::set_pref("CheckRuleFiles", m) {
                    Ok(()) => res.log.push(format!("[fault] CheckRuleFiles={} -> Ok", m)),
                    Err(Fail::Err(e)) => judge!(&format!("set_preference(CheckRuleFiles,{})", m), &Err(e), None),
                    Err(Fail::Panic(p)) => {
                        panic_viol!("fault", "set_preference(CheckRuleFiles)", &p);
                        return res;
                    }
                }
            }
            // the same calls twice: a fault that a call reported must not be hidden from the next, identical call
            let mut first: Option<ProbeOut> = None;
            for _again in 0..2 {
                match probes(expr) {
                    Ok(out) => {
                        for (i, (name, r)) in out.iter().enumerate() {
                            judge!(name, r, reference.get(i).map(|x| &x.1));
                        }
                        if let Some(f) = &first {
                            for ((name, r1), (_, r2)) in f.iter().zip(out.iter()) {
                                if let (Err(e1), Ok(_)) = (r1, r2) {
                                    if names_file(e1, private, case) && !e1.starts_with("Pattern match/replacement failure") {
                                        res.viols.push((
                                            format!("fault-hidden-after-first-report:{}:{}", kind, case.fault.kind()),
                                            format!("{} reported the broken file ({}) and the next, identical call returned Ok although {} is still {}", name, e1.lines().next().unwrap_or("").chars().take(160).collect::<String>(), case.file, case.fault.kind()),
                                        ));
                                        break;
                                    }
                                }
                            }
                        }
                        first = Some(out);
                    }
                    Err((w, p)) => {
                        panic_viol!("fault", w, &p);
                        return res;
                    }
                }
                if !res.viols.is_empty() {
                    break;
                }
            }
        }
        // repair
        res.secondary = secondary;
        let mut repair = case.repair;
        if (repair == Repair::RestoreCheckAll || repair == Repair::RestoreOriginalTime) && !rules_ok {
            repair = Repair::RestoreRepoint; // no preference can be set before set_rules_dir succeeded
        }
        if case.fault == Fault::RulesDirMissing {
            repair = Repair::RestoreRepoint;
        }
        res.log.push(format!("-- repair: {:?}", repair));
        let step = |what: &str, r: Api<()>, res: &mut SessionResult| -> bool {
            match r {
                Ok(()) => true,
                Err(Fail::Err(e)) => {
                    res.log.push(format!("[repaired] {} -> Err({})", what, e.replace('\n', " | ").chars().take(200).collect::<String>()));
                    res.viols.push((format!("not-recovered:{}:{:?}:call-rejected", kind, repair), format!("after the repair ({:?}) {} still fails: {}", repair, what, e.chars().take(500).collect::<String>())));
                    false
                }
                Err(Fail::Panic(p)) => {
                    res.log.push(format!("[repaired] {} -> PANIC {}", what, p.msg));
                    res.viols.push((p.signature(), format!("{} panicked after the repair ({:?}; file {} had been {}): {} at {}", what, repair, case.file, case.fault.kind(), p.msg, p.loc)));
                    false
                }
            }
        };
        match repair {
            Repair::RestoreCheckAll => {
                restore(private, case, original);
                if !step("set_preference(CheckRuleFiles,All)", api::set_pref("CheckRuleFiles", "All"), &mut res) {
                    return res;
                }
            }
            Repair::RestoreOriginalTime => {
                restore_with_original_time(private, case, original);
                if !step("set_preference(CheckRuleFiles,All)", api::set_pref("CheckRuleFiles", "All"), &mut res) {
                    return res;
                }
            }
            Repair::RepointPristine => {
                if !step("set_rules_dir(pristine)", api::set_rules_dir(REPO_RULES), &mut res) {
                    return res;
                }
            }
            Repair::RestoreRepoint => {
                restore(private, case, original);
                if !step("set_rules_dir(same directory)", api::set_rules_dir(private), &mut res) {
                    return res;
                }
            }
        }
        let final_crf = if repair == Repair::RestoreCheckAll || repair == Repair::RestoreOriginalTime { "All".to_string() } else { case.mid_crf.clone().unwrap_or(case.crf.clone()) };
        for (k, v) in config_prefs(case, &final_crf) {
            if !step(&format!("set_preference({},{})", k, v), api::set_pref(k, &v), &mut res) {
                return res;
            }
        }
        match probes(expr) {
            Ok(out) => {
                for (i, (name, r)) in out.iter().enumerate() {
                    res.log.push(format!("[repaired] {} -> {}", name, short(r)));
                    if Some(r) != reference.get(i).map(|x| &x.1) {
                        res.viols.push((
                            format!("not-recovered:{}:{:?}:{}", kind, repair, name),
                            format!("after the repair ({:?}) {} differs from its value before the fault\nnow:    {}\nbefore: {}", repair, name, short(r), reference.get(i).map(|x| short(&x.1)).unwrap_or_default()),
                        ));
                        break;
                    }
                }
            }
            Err((w, p)) => {
                panic_viol!("repaired", w, &p);
            }
        }
        res
    }
}

fn configs() -> Vec<(String, String, String)> {
    let langs = languages();
    let codes = braille_codes();
    let mut v = vec![];
    for (i, l) in langs.iter().enumerate() {
        let style = if i % 2 == 0 { "ClearSpeak" } else { "SimpleSpeak" };
        v.push((l.clone(), style.to_string(), codes[i % codes.len()].clone()));
    }
    for (i, c) in codes.iter().enumerate() {
        v.push(("en".to_string(), if i % 2 == 0 { "SimpleSpeak" } else { "ClearSpeak" }.to_string(), c.clone()));
    }
    v
}

fn fault_strategy() -> BoxedStrategy<Fault> {
    prop_oneof![
        2 => Just(Fault::Deleted),
        2 => Just(Fault::Empty),
        4 => any::<u16>().prop_map(Fault::TruncateAt),
        4 => any::<u16>().prop_map(Fault::TruncateEntry),
        1 => Just(Fault::TopMapping),
        1 => Just(Fault::TopScalar),
        1 => Just(Fault::TopListOfScalars),
        4 => any::<u16>().prop_map(Fault::BadXPath),
        3 => any::<u16>().prop_map(Fault::UnknownKey),
        4 => (any::<u16>(), any::<u8>()).prop_map(|(a, b)| Fault::WrongTypeEntry(a, b)),
        4 => (any::<u16>(), any::<u8>()).prop_map(|(a, b)| Fault::WrongTypeLine(a, b)),
        2 => any::<u16>().prop_map(Fault::InvalidUtf8),
        1 => Just(Fault::Directory),
    ]
    .boxed()
}

impl Property for C14 {
    type Case = Case;
    fn id(&self) -> &'static str {
        "C14"
    }
    fn own_sessions(&self) -> bool {
        true
    }
    fn level(&self) -> &'static str {
        "fault_enumeration"
    }
    fn strategy(&self, _tier: Tier) -> BoxedStrategy<Case> {
        let cfgs = configs();
        (
            prop_oneof![3 => Just(0usize), 2 => 0..cfgs.len()],
            any::<u16>(),
            fault_strategy(),
            prop_oneof![Just(Timing::BeforeLoad), Just(Timing::AfterLoad)],
            prop_oneof![4 => Just("All"), 2 => Just("Prefs"), 1 => Just("None")],
            prop_oneof![3 => Just(None), 1 => Just(Some("Prefs")), 1 => Just(Some("All")), 1 => Just(Some("None"))],
            prop_oneof![3 => Just(Repair::RestoreCheckAll), 2 => Just(Repair::RepointPristine), 2 => Just(Repair::RestoreRepoint), 2 => Just(Repair::RestoreOriginalTime)],
            0..EXPRS.len(),
        )
            .prop_map(move |(ci, fpick, fault, timing, crf, mid, repair, expr)| {
                let (lang, style, code) = if ci == 0 { ("en".to_string(), "ClearSpeak".to_string(), "Nemeth".to_string()) } else { cfgs[ci].clone() };
                let files = reachable_files(&lang, &code);
                let file = files[pick(files.len(), fpick)].clone();
                Case { lang, style, code, file, fault, timing, crf: crf.to_string(), mid_crf: mid.map(|s| s.to_string()), repair, expr }
            })
            .boxed()
    }
    fn explicit_cases(&self, tier: Tier) -> Vec<Case> {
        // the enumerated part: every reachable file of the default configuration x the basic fault kinds x both timings
        let mut out = vec![];
        let basic = [Fault::Deleted, Fault::Empty, Fault::TruncateAt(0x8000), Fault::TruncateEntry(0x8000), Fault::TopMapping, Fault::TopScalar, Fault::InvalidUtf8(0x5000), Fault::Directory];
        let cfgs: Vec<(&str, &str, &str)> = if tier == Tier::Thorough { vec![("en", "ClearSpeak", "Nemeth"), ("en", "SimpleSpeak", "UEB"), ("es", "ClearSpeak", "CMU"), ("sv", "ClearSpeak", "Swedish")] } else { vec![("en", "ClearSpeak", "Nemeth")] };
        let mut n = 0usize;
        for (lang, style, code) in cfgs {
            for file in reachable_files(lang, code) {
                for fault in &basic {
                    for timing in [Timing::BeforeLoad, Timing::AfterLoad] {
                        n += 1;
                        let repair = [Repair::RestoreCheckAll, Repair::RepointPristine, Repair::RestoreRepoint][n % 3];
                        // unicode-full is only read for the expression with rare characters
                        let expr = if file.ends_with("unicode-full.yaml") { 1 } else { [0, 2, 0, 1][n % 4] };
                        out.push(Case { lang: lang.into(), style: style.into(), code: code.into(), file: file.clone(), fault: fault.clone(), timing, crf: "All".into(), mid_crf: None, repair, expr });
                    }
                }
            }
            out.push(Case { lang: lang.into(), style: style.into(), code: code.into(), file: "prefs.yaml".into(), fault: Fault::RulesDirMissing, timing: Timing::BeforeLoad, crf: "All".into(), mid_crf: None, repair: Repair::RestoreRepoint, expr: 0 });
        }
        out
    }
    fn eval(&self, case: &Case) -> Outcome {
        let reference = match reference_for(case) {
            Ok(r) => r,
            Err(e) => return Outcome::reject(&format!("reference unavailable: {}", e.chars().take(60).collect::<String>())),
        };
        let private = private_rules();
        let Ok(original) = std::fs::read(format!("{}/{}", REPO_RULES, case.file)) else { return Outcome::reject("no such rule file") };
        let res = in_raw_session(|| self.run_session(case, &private, &original, &reference));
        // whatever happened, the private copy is intact again for the next case
        restore(&private, case, &original);
        if let Some(r) = res.reject {
            return Outcome::reject(&r);
        }
        let viols: Vec<(String, String)> = res.viols.into_iter().map(|(s, d)| (s, format!("{}\nconfiguration: Language={} SpeechStyle={} BrailleCode={} CheckRuleFiles={} (then {:?}); timing {:?}\ntranscript:\n  {}", d, case.lang, case.style, case.code, case.crf, case.mid_crf, case.timing, res.log.join("\n  ")))).collect();
        let mut o = Outcome::from_violations(viols, res.seen);
        if res.secondary > 0 {
            o.classes.push("secondary-errors-without-file-name".to_string());
        }
        o.classes.extend(vec![format!("file:{}", file_kind(&case.file)), format!("fault:{}", case.fault.kind()), format!("timing:{:?}", case.timing), format!("fault-{}", if res.seen { "seen" } else { "unseen" }), format!("{}:{}:{}", file_kind(&case.file), case.fault.kind(), if res.seen { "seen" } else { "unseen" })]);
        o
    }
    fn to_json(&self, case: &Case) -> Value {
        serde_json::to_value(case).unwrap()
    }
    fn from_json(&self, v: &Value) -> Option<Case> {
        serde_json::from_value(v.clone()).ok()
    }
    fn max_shrink_iters(&self) -> usize {
        60
    }
    fn cases(&self) -> (usize, usize) {
        (1500, 40000)
    }
    fn rule(&self) -> String {
        "cases = (configuration, rule file reachable from it, fault kind, fault injected before the first load or after a successful load, CheckRuleFiles mode while faulty and an optional switch of it, repair mode, probe expression) on a private copy of Rules/; enumerated part = every reachable file of the default configuration x 8 basic fault kinds x both timings, plus the missing rules directory; oracle = no call panics; an Err returned while the fault is in place (and not returned by the reference too) names the faulted file; the calls are made twice and a call that reported the broken file does not return Ok the second time; after the repair (bytes restored with a newer mtime and CheckRuleFiles=All, or set_rules_dir to the pristine / same directory) set_mathml, speech, overview, braille, two navigation moves and navigation braille equal a fresh session on the pristine rules; non-trivial = the fault was seen (an Err, or an output that differs from the reference, between fault and repair)".into()
    }
    fn assumptions(&self) -> Vec<String> {
        vec![
            "time stamps of injected and repaired files are set explicitly and strictly increasing (an editor saving a file produces the same ordering)".into(),
            "a fault that stays invisible (file not reached by the probe, CheckRuleFiles not All after a successful load, deleted file shadowed by a fall-back) is a trivial case, not a violation".into(),
        ]
    }
}
