//! C06 — braille renders every operand (count of published digit-cell runs, calibrated decimal mark).
use crate::engine::*;
use crate::gen::*;
use crate::props::c04::kind_of_literal;
use crate::tex::*;
use proptest::prelude::*;
use serde::{Deserialize, Serialize};
use serde_json::Value;

#[derive(Clone, Debug, Serialize, Deserialize)]
pub struct Case {
    pub planted: Planted,
    pub code: String,
    pub prefs: Vec<(String, String)>,
}

pub struct C06;

/// published digit cells (index = digit)
pub const NEMETH_DIGITS: [char; 10] = ['⠴', '⠂', '⠆', '⠒', '⠲', '⠢', '⠖', '⠶', '⠦', '⠔'];
pub const UPPER_DIGITS: [char; 10] = ['⠚', '⠁', '⠃', '⠉', '⠙', '⠑', '⠋', '⠛', '⠓', '⠊'];

pub fn digit_sets(code: &str) -> Vec<[char; 10]> {
    match code {
        "Nemeth" => vec![NEMETH_DIGITS],
        // codes that lower ("drop") the digits of numeric fractions: the lower-cell set is an alternative
        "CMU" | "Vietnam" | "UEB" | "Swedish" => vec![UPPER_DIGITS, NEMETH_DIGITS],
        _ => vec![UPPER_DIGITS],
    }
}

fn encode(lit: &str, digits: &[char; 10], mark: &str) -> String {
    let mut s = String::new();
    for c in lit.chars() {
        if let Some(d) = c.to_digit(10) {
            s.push(digits[d as usize]);
        } else {
            s.push_str(mark);
        }
    }
    s
}

/// cells the code writes for the decimal mark: braille "12.34" alone and read what stands between the digit runs
fn calibrate_mark(code: &str) -> Option<Vec<String>> {
    if api::set_mathml("<math><mn>12.34</mn></math>").is_err() {
        return None;
    }
    let b = api::braille("").ok()?;
    let mut marks = vec![];
    for ds in digit_sets(code) {
        let left: String = [ds[1], ds[2]].iter().collect();
        let right: String = [ds[3], ds[4]].iter().collect();
        if let (Some(i), Some(j)) = (b.find(&left), b.find(&right)) {
            if i + left.len() <= j {
                marks.push(b[i + left.len()..j].to_string());
            }
        }
    }
    if marks.is_empty() {
        None
    } else {
        Some(marks)
    }
}

fn count_sub(hay: &str, needle: &str) -> usize {
    if needle.is_empty() {
        return 0;
    }
    hay.matches(needle).count()
}

/// constructs for which some braille code is known to lose an argument
pub fn braille_class(tree: &MNode, lit: &str) -> Option<String> {
    let has = |n: &MNode| n.any(&|t| t.tag == "mn" && t.txt() == lit);
    if tree.any(&|n| n.tag == "munderover" && n.kids.first().map(|b| b.txt() == "lim").unwrap_or(false) && n.kids.iter().skip(1).any(has)) {
        return Some("lim-underover-script".to_string());
    }
    // numeric fraction: mfrac of two numbers, or a row holding number / number (anything in that row)
    if tree.any(&|n| n.tag == "mfrac" && n.kids.len() == 2 && n.kids.iter().all(|k| k.tag == "mn") && n.kids.iter().any(|k| k.txt() == lit)) {
        return Some("numeric-fraction".to_string());
    }
    if tree.any(&|n| n.kids.windows(2).any(|w| w[0].tag == "mo" && w[0].txt() == "/" && w[1].tag == "mn") && has(n)) {
        return Some("numeric-fraction".to_string());
    }
    if tree.any(&|n| n.tag == "menclose" && has(n)) {
        return Some("in-menclose".to_string());
    }
    None
}

impl Property for C06 {
    type Case = Case;
    fn id(&self) -> &'static str {
        "C06"
    }
    fn strategy(&self, tier: Tier) -> BoxedStrategy<Case> {
        let cfg = TexCfg { depth: if tier == Tier::Thorough { 5 } else { 4 }, size: 22, tables: true, text: true };
        let _ = tier;
        let codes: Vec<&str> = vec!["Nemeth", "UEB", "CMU", "Vietnam", "LaTeX", "ASCIIMath", "Swedish", "ASCIIMath-fi"];
        let prefs = (sel(&["Grade1", "Grade2"]), any::<bool>(), any::<bool>(), any::<bool>(), any::<bool>()).prop_map(|(start, spaces, drop, short, spaces2)| vec![("UEB_StartMode".to_string(), start.to_string()), ("UEB_UseSpacesAroundAllOperators".to_string(), spaces.to_string()), ("Vietnam_UseDropNumbers".to_string(), drop.to_string()), ("LaTeX_UseShortName".to_string(), short.to_string()), ("UseSpacesAroundAllOperators".to_string(), spaces2.to_string())]);
        (prop_oneof![planted_textbook(true, 0.25, cfg.clone()), planted_textbook_with(false, 0.25, cfg, true)], sel(&codes), prefs).prop_map(|(planted, code, prefs)| Case { planted, code: code.to_string(), prefs }).boxed()
    }
    fn eval(&self, case: &Case) -> Outcome {
        let mut prefs = vec![("BrailleCode".to_string(), case.code.clone()), ("BrailleNavHighlight".to_string(), "Off".to_string()), ("Language".to_string(), "en".to_string()), ("DecimalSeparator".to_string(), "Auto".to_string())];
        prefs.extend(case.prefs.iter().cloned());
        if let Err(e) = apply_prefs(&prefs) {
            return Outcome::reject(&format!("configuration rejected: {}", e.chars().take(50).collect::<String>()));
        }
        let text_code = crate::props::c07::is_text_code(&case.code);
        let marks = if text_code {
            vec![".".to_string()]
        } else {
            match calibrate_mark(&case.code) {
                Some(m) => m,
                None => return Outcome::reject("cannot calibrate the decimal mark for this code"),
            }
        };
        let xml = case.planted.tree.to_xml();
        if api::set_mathml(&xml).is_err() {
            return Outcome::reject("set_mathml failed");
        }
        let braille = match api::braille("") {
            Ok(b) => b,
            Err(Fail::Err(_)) => return Outcome::reject("get_braille Err (C15)"),
            Err(Fail::Panic(_)) => return Outcome::reject("get_braille panic (C08)"),
        };
        let mut seen = std::collections::BTreeMap::new();
        for l in &case.planted.literals {
            *seen.entry(l.clone()).or_insert(0usize) += 1;
        }
        let mut viols = vec![];
        for (l, k) in &seen {
            let got = if text_code {
                count_sub(&braille, l) // "appears verbatim" (adjacent literals run together in the text codes)
            } else {
                // occurrences in the regular and in the lowered ("dropped") digit set add up
                let mut total = 0;
                for ds in digit_sets(&case.code) {
                    let mut best = 0;
                    for m in &marks {
                        best = best.max(count_sub(&braille, &encode(l, &ds, m)));
                    }
                    total += best;
                }
                total
            };
            if got < *k {
                let kind = braille_class(&case.planted.tree, l).unwrap_or_else(|| kind_of_literal(&case.planted.tree, l));
                let decimal = if l.contains('.') { "decimal" } else { "integer" };
                viols.push((format!("operand-not-brailled:{}:{}:{}", case.code, kind, decimal), format!("literal {} occurs {} time(s) in the expression but its cells occur {} time(s) in the braille\ncode={} prefs={:?} decimal-mark cells={:?}\nmathml: {}\nbraille: {}", l, k, got, case.code, case.prefs, marks, xml, braille)));
                break;
            }
        }
        let nontrivial = case.planted.literals.len() >= 3 && literal_depth(&case.planted.tree) >= 1;
        let mut o = Outcome::from_violations(viols, nontrivial);
        o.classes.push(format!("code:{}", case.code));
        for k in position_kinds(&case.planted.tree) {
            o.classes.push(format!("position:{}", k));
        }
        o
    }
    fn to_json(&self, case: &Case) -> Value {
        let mut v = serde_json::to_value(case).unwrap();
        v["xml"] = Value::String(case.planted.tree.to_xml());
        v
    }
    fn from_json(&self, v: &Value) -> Option<Case> {
        if v.get("planted").is_none() {
            let tree = parse_xml(v["xml"].as_str()?).ok()?;
            let literals: Vec<String> = tree.tokens().iter().filter(|t| t.tag == "mn").map(|t| t.txt().to_string()).collect();
            let prefs: Vec<(String, String)> = v.get("prefs").and_then(|p| serde_json::from_value(p.clone()).ok()).unwrap_or_default();
            return Some(Case { planted: Planted { tree, literals }, code: v["code"].as_str()?.to_string(), prefs });
        }
        let mut v = v.clone();
        if let Some(o) = v.as_object_mut() {
            o.remove("xml");
        }
        serde_json::from_value(v).ok()
    }
    fn cases(&self) -> (usize, usize) {
        (30000, 400000)
    }
    fn rule(&self) -> String {
        "cases = textbook-grammar expressions with a distinct literal (decimal NN.DD or integer NNDD) planted at every operand position x braille code {Nemeth, UEB, CMU, Vietnam, LaTeX, ASCIIMath, Swedish, ASCIIMath-fi} x code preferences; oracle = text codes: the literal occurs verbatim; cell codes: the literal's digit cells -- the published ones (Nemeth lower cells, upper cells for the others, lower cells as alternative where digits are dropped) with the decimal-mark cells calibrated by brailling 12.34 alone in the same session -- occur as a contiguous run at least as often as the literal occurs in the expression; non-trivial = >= 3 literals, one inside a 2-D element".into()
    }
}
