//! C17 — equivalent XML spellings of an expression give identical results.
use crate::engine::*;
use crate::gen::*;
use crate::norm::data_path;
use crate::props::c08::normalize_ids;
use proptest::prelude::*;
use serde::{Deserialize, Serialize};
use serde_json::Value;
use std::collections::{BTreeMap, HashMap};
use std::sync::OnceLock;

#[derive(Clone, Debug, Serialize, Deserialize)]
pub enum Case {
    /// base tree + a list of choice bytes steering the variant serializer + which variation operators are on
    Variant { tree: MNode, ops: Vec<String>, choices: Vec<u8> },
    /// sweep: one entity name of MathCAT's table
    Entity { name: String },
    /// a name that is in neither table
    Unknown { name: String },
}

pub struct C17;

pub const VAR_OPS: &[&str] = &["entities", "prefix", "default-xmlns", "whitespace", "comments", "pi", "mathjax-class", "double-quotes", "edge-space"];

pub fn html5() -> &'static BTreeMap<String, String> {
    static M: OnceLock<BTreeMap<String, String>> = OnceLock::new();
    M.get_or_init(|| {
        let text = std::fs::read_to_string(data_path("html5_entities.json")).expect("html5_entities.json");
        let v: Value = serde_json::from_str(&text).unwrap();
        v["entities"].as_object().unwrap().iter().map(|(k, v)| (k.clone(), v.as_str().unwrap().to_string())).collect()
    })
}

/// char -> names (single-character HTML5 entities with purely alphabetic names, which is what MathCAT's regex accepts)
pub fn names_of_char() -> &'static HashMap<char, Vec<String>> {
    static M: OnceLock<HashMap<char, Vec<String>>> = OnceLock::new();
    M.get_or_init(|| {
        let mut m: HashMap<char, Vec<String>> = HashMap::new();
        for (k, v) in html5() {
            let mut cs = v.chars();
            if let (Some(c), None) = (cs.next(), cs.next()) {
                if k.chars().all(|ch| ch.is_ascii_alphabetic()) {
                    m.entry(c).or_default().push(k.clone());
                }
            }
        }
        for v in m.values_mut() {
            v.sort();
        }
        m
    })
}

pub fn mathcat_entity_names() -> &'static Vec<String> {
    static V: OnceLock<Vec<String>> = OnceLock::new();
    V.get_or_init(|| {
        let text = std::fs::read_to_string("/repo/src/entities.in").expect("entities.in");
        let re = regex::Regex::new(r#"^\s*"([A-Za-z0-9]+)"\s*=>"#).unwrap();
        text.lines().filter_map(|l| re.captures(l).map(|c| c[1].to_string())).collect()
    })
}

struct Chooser<'a> {
    bytes: &'a [u8],
    i: usize,
}
impl<'a> Chooser<'a> {
    fn next(&mut self) -> u8 {
        if self.bytes.is_empty() {
            return 0;
        }
        let b = self.bytes[self.i % self.bytes.len()];
        self.i += 1;
        b
    }
}

fn spell_char(c: char, on: bool, ch: &mut Chooser, used: &mut Vec<String>) -> String {
    let esc = |c: char| match c {
        '&' => "&amp;".to_string(),
        '<' => "&lt;".to_string(),
        '>' => "&gt;".to_string(),
        _ => c.to_string(),
    };
    if !on {
        return esc(c);
    }
    let b = ch.next();
    // white space inside a token is spelled as a character reference more often (a reference starts a text node of its own)
    if b < if c.is_whitespace() { 50 } else { 110 } {
        return esc(c);
    }
    match b % 4 {
        0 => {
            if let Some(names) = names_of_char().get(&c) {
                let n = &names[(ch.next() as usize * names.len()) >> 8];
                used.push(n.clone());
                format!("&{};", n)
            } else {
                esc(c)
            }
        }
        1 => format!("&#{};", c as u32),
        2 => format!("&#x{:X};", c as u32),
        _ => format!("&#x{:06x};", c as u32),
    }
}

fn has(ops: &[String], o: &str) -> bool {
    ops.iter().any(|x| x == o)
}

fn write_variant(n: &MNode, ops: &[String], ch: &mut Chooser, prefix: &str, is_root: bool, depth: usize, out: &mut String, used: &mut Vec<String>) {
    if n.tag == "#text" {
        for c in n.txt().chars() {
            out.push_str(&spell_char(c, has(ops, "entities"), ch, used));
        }
        return;
    }
    let q = if has(ops, "double-quotes") && ch.next() % 2 == 0 { '"' } else { '\'' };
    out.push('<');
    out.push_str(prefix);
    out.push_str(&n.tag);
    if is_root {
        if !prefix.is_empty() {
            out.push_str(&format!(" xmlns:{}={}http://www.w3.org/1998/Math/MathML{}", prefix.trim_end_matches(':'), q, q));
        } else if has(ops, "default-xmlns") {
            out.push_str(&format!(" xmlns={}http://www.w3.org/1998/Math/MathML{}", q, q));
        }
    }
    // the MathJax bookkeeping class goes at a random position among the attributes
    let mjx: Option<(usize, String)> = if has(ops, "mathjax-class") && ch.next() < 110 && n.get_attr("class").is_none() {
        let v = ["MJX-TeXAtom-ORD", "MJX-variant", "data-mjx-texclass", "MJX-tex-caligraphic"][(ch.next() as usize * 4) >> 8];
        let v = if v.starts_with("data") { "data-mjx-x".to_string() } else { v.to_string() };
        Some(((ch.next() as usize * (n.attrs.len() + 1)) >> 8, v))
    } else {
        None
    };
    let spaces = |ch: &mut Chooser| if has(ops, "mathjax-class") && ch.next() < 60 { " = " } else { "=" };
    for (i, (k, v)) in n.attrs.iter().enumerate() {
        if let Some((pos, val)) = &mjx {
            if *pos == i {
                out.push_str(&format!(" class{}{}{}{}", spaces(ch), q, val, q));
            }
        }
        out.push(' ');
        out.push_str(k);
        out.push('=');
        out.push(q);
        for c in v.chars() {
            match c {
                '&' => out.push_str("&amp;"),
                '<' => out.push_str("&lt;"),
                '"' if q == '"' => out.push_str("&quot;"),
                '\'' if q == '\'' => out.push_str("&apos;"),
                _ => out.push(c),
            }
        }
        out.push(q);
    }
    if let Some((pos, val)) = &mjx {
        if *pos >= n.attrs.len() {
            out.push_str(&format!(" class{}{}{}{}", spaces(ch), q, val, q));
        }
    }
    if n.kids.is_empty() && n.text.is_none() {
        out.push_str("/>");
        return;
    }
    out.push('>');
    let between = |out: &mut String, ch: &mut Chooser| {
        if has(ops, "whitespace") && ch.next() < 160 {
            out.push_str(["\n", " ", "\n  ", "\t", "\r\n", "   "][(ch.next() as usize * 6) >> 8]);
            out.push_str(&" ".repeat(depth.min(6)));
        }
        if has(ops, "comments") && ch.next() < 60 {
            out.push_str(["<!-- c -->", "<!---->", "<!-- <mi>x</mi> -->", "<!-- a & b -->"][(ch.next() as usize * 4) >> 8]);
        }
        if has(ops, "pi") && ch.next() < 40 {
            out.push_str(["<?foo bar?>", "<?x?>", "<?target a='b' ?>"][(ch.next() as usize * 3) >> 8]);
        }
    };
    if let Some(t) = &n.text {
        let edge = has(ops, "edge-space") && ch.next() < 120;
        if edge {
            out.push_str([" ", "\n", "  ", "\t "][(ch.next() as usize * 4) >> 8]);
        }
        for c in t.chars() {
            out.push_str(&spell_char(c, has(ops, "entities"), ch, used));
        }
        if edge {
            out.push_str([" ", "\n  ", "\t"][(ch.next() as usize * 3) >> 8]);
        }
    }
    let tokenish = n.is_token();
    for k in &n.kids {
        if !tokenish {
            between(out, ch);
        }
        write_variant(k, ops, ch, prefix, false, depth + 1, out, used);
    }
    if !tokenish && !n.kids.is_empty() {
        between(out, ch);
    }
    out.push_str("</");
    out.push_str(prefix);
    out.push_str(&n.tag);
    out.push('>');
}

pub fn variant_string(tree: &MNode, ops: &[String], choices: &[u8]) -> (String, Vec<String>) {
    let mut ch = Chooser { bytes: choices, i: 0 };
    let prefix = if has(ops, "prefix") { ["m:", "mml:", "math:", "q:"][(ch.next() as usize * 4) >> 8] } else { "" };
    let mut out = String::new();
    let mut used = vec![];
    if has(ops, "comments") && ch.next() < 60 {
        out.push_str("<!-- leading comment -->");
    }
    write_variant(tree, ops, &mut ch, prefix, true, 0, &mut out, &mut used);
    (out, used)
}

#[derive(Debug, PartialEq, Eq)]
struct Outputs {
    canon: String,
    speech: Result<String, String>,
    braille: Result<String, String>,
}

fn outputs_of(xml: &str) -> Result<Outputs, Fail> {
    let c = api::set_mathml(xml)?;
    let canon = normalize_ids(&c, &c);
    let flat = |r: Api<String>| match r {
        Ok(s) => Ok(normalize_ids(&s, &c)),
        Err(e) => Err(e.text().chars().take(60).collect::<String>()),
    };
    Ok(Outputs { canon, speech: flat(api::speech()), braille: flat(api::braille("")) })
}

fn compare(base: &str, variant: &str, label: &str) -> Result<Option<(String, String)>, String> {
    let a = match outputs_of(base) {
        Ok(a) => a,
        Err(Fail::Err(_)) => return Err("base rejected".into()),
        Err(Fail::Panic(_)) => return Err("base panics (C08)".into()),
    };
    let b = match outputs_of(variant) {
        Ok(b) => b,
        Err(Fail::Panic(_)) => return Err("variant panics (C08)".into()),
        Err(Fail::Err(e)) => {
            if e.contains("No entity named") {
                return Err("variant uses an HTML5 name MathCAT does not know (reported as error: allowed)".into());
            }
            return Ok(Some(("variant-rejected".to_string(), format!("base accepted, variant rejected: {}\nbase:    {}\nvariant: {}", e.chars().take(200).collect::<String>(), base, variant))));
        }
    };
    if a == b {
        return Ok(None);
    }
    let field = if a.canon != b.canon {
        "canonical"
    } else if a.speech != b.speech {
        "speech"
    } else {
        "braille"
    };
    Ok(Some((format!("differs:{}", field), format!("base:    {}\nvariant: {}\nbase outputs:    {:?}\nvariant outputs: {:?}", base, variant, a, b))))
}

impl Property for C17 {
    type Case = Case;
    fn id(&self) -> &'static str {
        "C17"
    }
    fn strategy(&self, tier: Tier) -> BoxedStrategy<Case> {
        let mut tc = TokCfg::plain();
        tc.mathvariant = true;
        tc.lookalike = 1;
        tc.text = 2;
        tc.dict_op = 2;
        let sc = StructCfg { depth: if tier == Tier::Thorough { 5 } else { 4 }, size: 24, wrappers: true, tables: true, multiscripts: true, degenerate: false, mfenced: true, semantics: false };
        let operand = prop_oneof![3 => tok_ident(), 2 => "[0-9]{1,3}(\\.[0-9]{1,2})?".prop_map(|s| MNode::mn(&s)), 1 => one_char_of("αβγδλμπσθφωΔΩΣ≤≥≠±×÷∞∑∫√∈∉⊂∪∩→⇒∀∃∂∇…⋯ℝℕ′").prop_map(|s| MNode::mi(&s))].boxed();
        let base = prop_oneof![
            1 => math_of(structure(token(&tc), sc)),
            1 => textbook(operand, TexCfg::default()).prop_map(|n| MNode::math(vec![n])),
        ];
        // author attributes on random nodes (attribute order and neighbours matter to the clean-up regexes)
        let base = (base, proptest::collection::vec((any::<u16>(), sel(&[("mathvariant", "bold"), ("mathvariant", "script"), ("mathvariant", "double-struck"), ("stretchy", "false"), ("fence", "true"), ("displaystyle", "true"), ("mathcolor", "red"), ("data-foo", "it's"), ("data-bar", "a \"q\""), ("xml:lang", "en"), ("intent", ":unit")])), 0..4)).prop_map(|(mut t, attrs)| {
            let n = t.count_nodes();
            for (pos, (k, v)) in attrs {
                let target = (pos as usize * n) >> 16;
                let mut i = 0;
                t.walk_mut(&mut |node| {
                    if i == target && node.tag != "#text" && node.get_attr(k).is_none() && (k != "mathvariant" || node.is_token()) && (k != "intent" || node.tag == "mi") {
                        node.attrs.push((k.to_string(), v.to_string()));
                    }
                    i += 1;
                });
            }
            t
        });
        // white-space runs inside token text (XML white space is collapsed inside tokens however it is spelled)
        let base = (base, proptest::collection::vec((any::<u16>(), any::<u16>(), sel(&["  ", " \n", "\t ", " \n  ", "\n", " \t\n "])), 0..3)).prop_map(|(mut t, runs)| {
            let n = t.count_nodes();
            for (pos, at, run) in runs {
                let target = (pos as usize * n) >> 16;
                let mut i = 0;
                t.walk_mut(&mut |node| {
                    if i == target && matches!(node.tag.as_str(), "mtext" | "mi" | "ms") {
                        if let Some(text) = &mut node.text {
                            let chars: Vec<char> = text.chars().collect();
                            if chars.len() >= 2 && !chars.iter().any(|c| *c == '\u{a0}') {
                                let k = 1 + ((at as usize * (chars.len() - 1)) >> 16);
                                let mut new: String = chars[..k].iter().collect();
                                // an existing blank at the cut is replaced by the run
                                let rest: String = chars[k..].iter().collect();
                                new = new.trim_end_matches(' ').to_string();
                                new.push_str(run);
                                new.push_str(rest.trim_start_matches(' '));
                                *text = new;
                            }
                        }
                    }
                    i += 1;
                });
            }
            t
        });
        let ops = proptest::sample::subsequence(VAR_OPS.iter().map(|s| s.to_string()).collect::<Vec<_>>(), 1..=5).prop_map(|mut v| {
            // a prefix and a default namespace declaration are alternatives
            if v.iter().any(|x| x == "prefix") {
                v.retain(|x| x != "default-xmlns");
            }
            v
        });
        let variant = (base, ops, proptest::collection::vec(any::<u8>(), 8..40)).prop_map(|(tree, ops, choices)| Case::Variant { tree, ops, choices });
        let unknown = "[A-Za-z]{2,9}".prop_filter("must be in neither table", |n| !html5().contains_key(n) && !mathcat_entity_names().contains(n)).prop_map(|name| Case::Unknown { name });
        prop_oneof![30 => variant, 1 => unknown].boxed()
    }
    fn explicit_cases(&self, _tier: Tier) -> Vec<Case> {
        mathcat_entity_names().iter().map(|n| Case::Entity { name: n.clone() }).collect()
    }
    fn eval(&self, case: &Case) -> Outcome {
        match case {
            Case::Variant { tree, ops, choices } => {
                let base = tree.to_xml();
                let (variant, used) = variant_string(tree, ops, choices);
                let label = {
                    let mut o: Vec<&str> = ops.iter().map(|s| s.as_str()).collect();
                    o.sort();
                    o.join("+")
                };
                let nontrivial = ops.len() >= 2 && variant != base;
                match compare(&base, &variant, &label) {
                    Err(why) => Outcome::reject(&why),
                    Ok(None) => {
                        let mut o = Outcome::pass(nontrivial);
                        for op in ops {
                            o.classes.push(format!("op:{}", op));
                        }
                        if !used.is_empty() {
                            o.classes.push("named-entity-used".into());
                        }
                        o
                    }
                    Ok(Some((sig, detail))) => {
                        // one root cause, many shapes: the preprocessing regexes run over text as well as markup
                        let sig = if crate::props::c01::input_trigger(tree) == Some("text-resembling-markup") { "trigger:text-resembling-markup".to_string() } else { sig };
                        Outcome::violation(sig, format!("{}\nentities used: {:?}", detail, used))
                    }
                }
            }
            Case::Entity { name } => {
                let Some(expansion) = html5().get(name) else {
                    return Outcome::reject("name not in the HTML5 reference table");
                };
                let refs: String = expansion.chars().map(|c| format!("&#x{:X};", c as u32)).collect();
                let a = format!("<math><mrow><mi>x</mi><mtext>&{};</mtext></mrow></math>", name);
                let b = format!("<math><mrow><mi>x</mi><mtext>{}</mtext></mrow></math>", refs);
                match compare(&b, &a, "entity") {
                    Err(why) => Outcome::reject(&why),
                    Ok(None) => Outcome::pass(true),
                    Ok(Some((_, detail))) => Outcome::violation(format!("entity:{}", name), format!("&{}; does not expand like the HTML5 reference {:?}\n{}", name, expansion.chars().map(|c| format!("U+{:04X}", c as u32)).collect::<Vec<_>>(), detail)),
                }
            }
            Case::Unknown { name } => {
                let a = format!("<math><mi>&{};</mi></math>", name);
                match api::set_mathml(&a) {
                    Err(Fail::Err(e)) if e.contains(name.as_str()) => Outcome::pass(true).class("unknown-entity-rejected"),
                    Err(Fail::Err(e)) => Outcome::violation("unknown-entity:error-does-not-name-it", format!("&{}; -> {}", name, e)),
                    Err(Fail::Panic(_)) => Outcome::reject("panic (C08)"),
                    Ok(s) => Outcome::violation("unknown-entity:accepted", format!("&{}; is in neither table but was accepted: {}", name, s.replace('\n', ""))),
                }
            }
        }
    }
    fn to_json(&self, case: &Case) -> Value {
        let mut v = serde_json::to_value(case).unwrap();
        if let Case::Variant { tree, ops, choices } = case {
            v["base_xml"] = Value::String(tree.to_xml());
            v["variant_xml"] = Value::String(variant_string(tree, ops, choices).0);
        }
        v
    }
    fn from_json(&self, v: &Value) -> Option<Case> {
        let mut v = v.clone();
        if let Some(o) = v.as_object_mut() {
            o.remove("base_xml");
            o.remove("variant_xml");
        }
        serde_json::from_value(v).ok()
    }
    fn cases(&self) -> (usize, usize) {
        (8000, 250000)
    }
    fn rule(&self) -> String {
        "exhaustive: every entity name of src/entities.in expanded by MathCAT vs the numeric character references of Python's html.entities.html5 expansion; generated: a base expression (G-struct/G-tex) (tokens may contain runs of XML white space) re-spelled by 1-5 of the surface operators {named/decimal/hex character references, namespace prefix, default xmlns, inter-element white space, comments, processing instructions, MathJax class attributes, attribute quoting, token-edge white space}; oracle = canonical MathML (ids normalised), speech and braille identical for base and variant; names in neither table must be rejected with an error naming them; non-trivial = >= 2 operators and the variant string differs".into()
    }
}
