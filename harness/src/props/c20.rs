//! C20 — braille highlighting and cursor routing are safe and side-effect free.
use crate::engine::*;
use crate::gen::*;
use crate::hist::{ids_of_mathml, NAV_COMMANDS};
use crate::props::c07::is_text_code;
use proptest::prelude::*;
use serde::{Deserialize, Serialize};
use serde_json::Value;

#[derive(Clone, Debug, Serialize, Deserialize)]
pub struct Case {
    pub tree: MNode,
    pub code: String,
    pub highlight: String,
    pub nav: Vec<String>,
    pub extra_positions: Vec<usize>,
}

pub struct C20;

fn unhighlight(s: &str) -> String {
    s.chars()
        .map(|c| {
            let cp = c as u32;
            if (0x2800..=0x28FF).contains(&cp) {
                char::from_u32(cp & !0xC0).unwrap_or(c)
            } else if c == '𝑏' {
                'b'
            } else {
                c
            }
        })
        .collect()
}

#[derive(Debug, Clone, PartialEq, Eq)]
struct Snapshot {
    highlight_pref: Result<String, String>,
    nav_id: Result<(String, usize), String>,
    speech: Result<String, String>,
    braille: Result<String, String>,
    overview: Result<String, String>,
    /// braille of the same stored expression in another code (switched to and back inside the snapshot): "all later
    /// output" includes output after the caller changes the code
    other_code: Result<String, String>,
}

fn snapshot() -> Result<Snapshot, PanicInfo> {
    fn f<T>(r: Api<T>) -> Result<Result<T, String>, PanicInfo> {
        match r {
            Ok(v) => Ok(Ok(v)),
            Err(Fail::Err(e)) => Ok(Err(e.chars().take(60).collect())),
            Err(Fail::Panic(p)) => Err(p),
        }
    }
    let mut snap = Snapshot { highlight_pref: f(api::get_pref("BrailleNavHighlight"))?, nav_id: f(api::nav_id())?, speech: f(api::speech())?, braille: f(api::braille(""))?, overview: f(api::overview())?, other_code: Err("not taken".into()) };
    if let Ok(Ok(code)) = f(api::get_pref("BrailleCode")) {
        let other = if code == "UEB" { "LaTeX" } else { "UEB" };
        if api::set_pref("BrailleCode", other).is_ok() {
            snap.other_code = f(api::braille(""))?;
        }
        let _ = api::set_pref("BrailleCode", &code);
    }
    Ok(snap)
}

impl Property for C20 {
    type Case = Case;
    fn id(&self) -> &'static str {
        "C20"
    }
    fn strategy(&self, tier: Tier) -> BoxedStrategy<Case> {
        let operand = prop_oneof![
            4 => tok_ident(),
            3 => "[0-9]{1,3}(\\.[0-9]{1,2})?".prop_map(|s| MNode::mn(&s)),
            1 => one_char_of("αβΓΔ∞").prop_map(|s| MNode::mi(&s)),
            // number tokens whose text some codes rewrite while brailling (Roman numerals, digit groups)
            1 => select_str(ROMAN).prop_map(|s| MNode::mn(&s)),
            1 => "[0-9]{1,3},[0-9]{3}(\\.[0-9])?".prop_map(|s| MNode::mn(&s)),
        ]
        .boxed();
        let tree = textbook(operand, TexCfg { depth: if tier == Tier::Thorough { 4 } else { 3 }, size: 14, tables: true, text: true }).prop_map(|n| MNode::math(vec![n]));
        let nav = proptest::collection::vec(sel(&NAV_COMMANDS[..17]).prop_map(|s| s.to_string()), 0..3);
        let extra = proptest::collection::vec(prop_oneof![4 => 0usize..200, 1 => Just(usize::MAX), 1 => Just(u32::MAX as usize), 1 => Just(usize::MAX / 3)], 0..3);
        (tree, sel(&braille_codes()), sel(&["Off", "FirstChar", "EndPoints", "All"]), nav, extra).prop_map(|(tree, code, highlight, nav, extra_positions)| Case { tree, code, highlight: highlight.to_string(), nav, extra_positions }).boxed()
    }
    fn eval(&self, case: &Case) -> Outcome {
        for (k, v) in [("BrailleCode", case.code.as_str()), ("BrailleNavHighlight", case.highlight.as_str()), ("Language", "en"), ("TTS", "None")] {
            if api::set_pref(k, v).is_err() {
                return Outcome::reject("configuration rejected");
            }
        }
        let xml = case.tree.to_xml();
        let canon = match api::set_mathml(&xml) {
            Ok(c) => c,
            Err(_) => return Outcome::reject("set_mathml failed"),
        };
        let ids = ids_of_mathml(&canon);
        for c in &case.nav {
            if let Err(Fail::Panic(_)) = api::nav_cmd(c) {
                return Outcome::reject("navigation panic (C08/C11)");
            }
        }
        // what the stored expression gives *before* any braille call: overview text and the braille of another code
        // (get_braille itself is one of the queries that must leave all later output unchanged)
        let flat = |r: Api<String>| match r {
            Ok(s) => Some(Ok(s)),
            Err(Fail::Err(e)) => Some(Err(e.chars().take(60).collect::<String>())),
            Err(Fail::Panic(_)) => None,
        };
        let other = if case.code == "UEB" { "LaTeX" } else { "UEB" };
        let first_look = |case: &Case| {
            let ov = flat(api::overview());
            let _ = api::set_pref("BrailleCode", other);
            let ob = flat(api::braille(""));
            let _ = api::set_pref("BrailleCode", &case.code);
            (ov, ob)
        };
        let look0 = first_look(case);
        let plain = match api::braille("") {
            Ok(b) => b,
            Err(Fail::Err(_)) => return Outcome::reject("get_braille(\"\") Err (C15)"),
            Err(Fail::Panic(_)) => return Outcome::reject("get_braille(\"\") panic (C08)"),
        };
        let len = plain.chars().count();
        let text_code = is_text_code(&case.code);
        let mut viols: Vec<(String, String)> = vec![];
        let ctx = |extra: String| format!("{}\ncode={} highlight={} nav={:?}\nmathml: {}\nplain braille: {}", extra, case.code, case.highlight, case.nav, xml, plain);
        let before = match snapshot() {
            Ok(s) => s,
            Err(_) => return Outcome::reject("snapshot panics (C08)"),
        };
        macro_rules! purity {
            ($what:expr) => {
                match snapshot() {
                    Ok(after) => {
                        if after != before {
                            let field = if after.highlight_pref != before.highlight_pref {
                                "highlight-preference"
                            } else if after.nav_id != before.nav_id {
                                "navigation-position"
                            } else if after.speech != before.speech {
                                "speech"
                            } else {
                                "braille"
                            };
                            viols.push((format!("not-pure:{}", field), ctx(format!("{} changed {}\nbefore: {:?}\nafter:  {:?}", $what, field, before, after))));
                        }
                    }
                    Err(p) => viols.push((p.signature(), ctx(format!("panic while re-reading state after {}: {} at {}", $what, p.msg, p.loc)))),
                }
            };
        }
        // (1)(2) highlighted braille for every id of the expression and for foreign ids
        let mut probe_ids: Vec<(String, bool)> = ids.iter().take(40).map(|i| (i.clone(), true)).collect();
        probe_ids.push(("not-an-id-of-this-expression".to_string(), false));
        'ids: for (id, own) in &probe_ids {
            match api::braille(id) {
                Err(Fail::Panic(p)) => {
                    viols.push((p.signature(), ctx(format!("get_braille({:?}) panicked: {} at {}", id, p.msg, p.loc))));
                    break 'ids;
                }
                Err(Fail::Err(e)) => {
                    if *own {
                        viols.push(("get_braille-of-own-id-fails".to_string(), ctx(format!("get_braille({:?}) returned Err: {}", id, e.chars().take(200).collect::<String>()))));
                        break 'ids;
                    }
                }
                Ok(b) => {
                    if !*own || case.highlight == "Off" {
                        if b != plain {
                            viols.push((format!("highlight-without-reason:{}", if *own { "off" } else { "foreign-id" }), ctx(format!("get_braille({:?}) = {} differs from the unhighlighted braille", id, b))));
                            break 'ids;
                        }
                    } else if !text_code && unhighlight(&b) != unhighlight(&plain) {
                        viols.push((format!("highlight-changes-cells:{}", case.code), ctx(format!("get_braille({:?}) = {} is not the plain braille plus dots 7/8", id, b))));
                        break 'ids;
                    }
                }
            }
        }
        if viols.is_empty() {
            purity!("get_braille(id)");
        }
        // (3) braille position of the current node
        if viols.is_empty() {
            match api::braille_pos() {
                Err(Fail::Panic(p)) => viols.push((p.signature(), ctx(format!("get_braille_position panicked: {} at {}", p.msg, p.loc)))),
                Err(Fail::Err(e)) => viols.push(("get_braille_position-fails".to_string(), ctx(format!("get_braille_position returned Err: {}", e.chars().take(200).collect::<String>())))),
                Ok((s, e)) => {
                    if !(s <= e && e <= len) {
                        viols.push(("braille-position-out-of-range".to_string(), ctx(format!("get_braille_position = ({}, {}) but the braille has {} characters", s, e, len))));
                    }
                }
            }
            if viols.is_empty() {
                purity!("get_braille_position");
            }
        }
        // (4) node under every cell
        if viols.is_empty() {
            let mut positions: Vec<usize> = if len <= 60 { (0..len + 3).collect() } else { (0..len + 3).step_by(len / 40 + 1).collect() };
            positions.extend(case.extra_positions.iter().copied());
            'pos: for p in positions {
                match api::node_from_braille_pos(p) {
                    Err(Fail::Panic(pi)) => {
                        viols.push((pi.signature(), ctx(format!("get_navigation_node_from_braille_position({}) panicked: {} at {}", p, pi.msg, pi.loc))));
                        break 'pos;
                    }
                    Err(Fail::Err(e)) => {
                        if p < len {
                            viols.push(("node-from-position-fails".to_string(), ctx(format!("get_navigation_node_from_braille_position({}) returned Err for a position inside the braille (len {}): {}", p, len, e.chars().take(200).collect::<String>()))));
                            break 'pos;
                        }
                    }
                    Ok((id, _off)) => {
                        if !ids.contains(&id) {
                            viols.push(("node-from-position-foreign-id".to_string(), ctx(format!("get_navigation_node_from_braille_position({}) returned id {:?} which is not in the expression", p, id))));
                            break 'pos;
                        }
                    }
                }
            }
            if viols.is_empty() {
                purity!("get_navigation_node_from_braille_position");
            }
        }
        let nontrivial = len >= 6 && ids.len() >= 4;
        if viols.is_empty() {
            let look1 = first_look(case);
            if let ((Some(ov0), Some(ob0)), (Some(ov1), Some(ob1))) = (&look0, &look1) {
                if ov0 != ov1 {
                    viols.push(("not-pure:later-overview".into(), ctx(format!("the overview text differs after the braille queries
before: {:?}
after:  {:?}", ov0, ov1))));
                } else if ob0 != ob1 {
                    viols.push(("not-pure:later-braille-in-another-code".into(), ctx(format!("the braille in {} differs after the braille queries
before: {:?}
after:  {:?}", other, ob0, ob1))));
                }
            }
        }
        let mut o = Outcome::from_violations(viols, nontrivial);
        o.classes = vec![format!("code:{}", case.code), format!("highlight:{}", case.highlight)];
        o
    }
    fn to_json(&self, case: &Case) -> Value {
        let mut v = serde_json::to_value(case).unwrap();
        v["xml"] = Value::String(case.tree.to_xml());
        v
    }
    fn from_json(&self, v: &Value) -> Option<Case> {
        let mut v = v.clone();
        if let Some(o) = v.as_object_mut() {
            o.remove("xml");
        }
        serde_json::from_value(v).ok()
    }
    fn cases(&self) -> (usize, usize) {
        (6000, 80000)
    }
    fn rule(&self) -> String {
        "cases = textbook expressions x every braille code x highlight style {Off, FirstChar, EndPoints, All}, after 0-2 navigation moves; for each expression every node id (up to 40) plus a foreign id is highlighted, the braille position is read, and every cell index 0..len+2 (sampled above 60 cells) plus huge positions is routed; oracle = get_braille(id) succeeds for own ids and (cell codes) equals the plain braille after clearing dots 7-8; with highlighting Off or a foreign id it equals the plain braille exactly; braille position satisfies start <= end <= length; routing a position inside the braille returns an id of the expression, outside never panics; the highlight preference, navigation position, speech and plain braille are identical after each group of calls (also after Err); non-trivial = >= 6 cells and >= 4 nodes".into()
    }
}
