//! C04 — speech voices every operand (metamorphic count of planted decimal literals).
use crate::engine::*;
use crate::gen::*;
use crate::tex::*;
use proptest::prelude::*;
use serde::{Deserialize, Serialize};
use serde_json::Value;

#[derive(Clone, Debug, Serialize, Deserialize)]
pub struct Case {
    pub planted: Planted,
    pub language: String,
    pub style: String,
    pub verbosity: String,
}

pub struct C04;

pub const STYLES: &[&str] = &["ClearSpeak", "SimpleSpeak"];
pub const VERBOSITIES: &[&str] = &["Terse", "Medium", "Verbose"];

/// set language/style/verbosity and report the decimal mark the session now uses
pub fn configure(language: &str, style: &str, verbosity: &str) -> Result<String, String> {
    api::set_pref("TTS", "None").map_err(|e| e.text())?;
    api::set_pref("DecimalSeparator", "Auto").map_err(|e| e.text())?;
    api::set_pref("Language", language).map_err(|e| e.text())?;
    api::set_pref("SpeechStyle", style).map_err(|e| e.text())?;
    api::set_pref("Verbosity", verbosity).map_err(|e| e.text())?;
    let d = api::get_pref("DecimalSeparators").map_err(|e| e.text())?;
    Ok(d.chars().next().map(|c| c.to_string()).unwrap_or_else(|| ".".to_string()))
}

/// position kind (numerator, exponent, root-index, ...) of the first occurrence of a literal
pub fn kind_of_literal(tree: &MNode, lit: &str) -> String {
    fn rec(n: &MNode, parent: &str, idx: usize, lit: &str) -> Option<String> {
        if n.tag == "mn" && n.txt() == lit {
            let kind = match (parent, idx) {
                ("mfrac", 0) => "numerator",
                ("mfrac", _) => "denominator",
                ("msup", 1) | ("msubsup", 2) => "exponent",
                ("msub", 1) | ("msubsup", 1) => "index",
                ("msup", 0) | ("msub", 0) | ("msubsup", 0) => "script-base",
                ("msqrt", _) | ("mroot", 0) => "radicand",
                ("mroot", 1) => "root-index",
                ("munder", 1) | ("mover", 1) | ("munderover", 1) | ("munderover", 2) => "limit",
                ("munder", 0) | ("mover", 0) | ("munderover", 0) => "underover-base",
                ("mtd", _) => "cell",
                ("menclose", _) => "enclosed",
                _ => "row",
            };
            return Some(kind.to_string());
        }
        for (i, k) in n.kids.iter().enumerate() {
            if let Some(r) = rec(k, &n.tag, i, lit) {
                // a literal inside a row reports the position of that row
                if r == "row" && n.tag == "mrow" {
                    let outer = match (parent, idx) {
                        ("mfrac", 0) => "in-numerator",
                        ("mfrac", _) => "in-denominator",
                        ("msup", 1) | ("msubsup", 2) => "in-exponent",
                        ("msub", 1) | ("msubsup", 1) => "in-index",
                        ("msqrt", _) | ("mroot", 0) => "in-radicand",
                        ("mroot", 1) => "in-root-index",
                        ("munder", 1) | ("mover", 1) | ("munderover", 1) | ("munderover", 2) => "in-limit",
                        ("mtd", _) => "in-cell",
                        _ => "row",
                    };
                    return Some(outer.to_string());
                }
                return Some(r);
            }
        }
        None
    }
    rec(tree, "", 0, lit).unwrap_or_else(|| "?".to_string())
}

/// Structural class of the place where a literal sits, judged over every occurrence of the literal:
/// the classes are the constructs for which some language's rules are known to drop an argument.
pub fn structural_class(tree: &MNode, lit: &str) -> Option<String> {
    if in_bracketed_script_base(tree, lit) {
        return Some("bracketed-script-base".to_string());
    }
    let has = |n: &MNode| n.any(&|t| t.tag == "mn" && t.txt() == lit);
    // lower limit of a lim with under- and over-script
    if tree.any(&|n| n.tag == "munderover" && n.kids.first().map(|b| b.txt() == "lim").unwrap_or(false) && n.kids.get(1).map(has).unwrap_or(false)) {
        return Some("lim-underover-lower-limit".to_string());
    }
    // index of an mroot (anything inside it)
    if tree.any(&|n| n.tag == "mroot" && n.kids.get(1).map(has).unwrap_or(false)) {
        return Some("root-index".to_string());
    }
    // a row in an exponent
    if tree.any(&|n| n.tag == "msup" && n.kids.get(1).map(|e| e.tag == "mrow" && has(e)).unwrap_or(false)) {
        return Some("row-in-exponent".to_string());
    }
    None
}

/// is the literal inside the base of an msub/msup/msubsup whose base is a fenced row "[ .. ]" / "( .. )" / "| .. |"
/// (read as "evaluated at" by several languages)
pub fn in_bracketed_script_base(tree: &MNode, lit: &str) -> bool {
    tree.any(&|n| {
        ["msub", "msup", "msubsup"].contains(&n.tag.as_str())
            && n.kids.first().map(|b| b.tag == "mrow" && b.kids.first().map(|f| f.tag == "mo" && ["[", "(", "|", "{"].contains(&f.txt())).unwrap_or(false) && b.any(&|t| t.tag == "mn" && t.txt() == lit)).unwrap_or(false)
    })
}

impl Property for C04 {
    type Case = Case;
    fn id(&self) -> &'static str {
        "C04"
    }
    fn strategy(&self, tier: Tier) -> BoxedStrategy<Case> {
        let cfg = TexCfg { depth: if tier == Tier::Thorough { 5 } else { 4 }, size: 22, tables: true, text: true };
        (planted_textbook(true, 0.25, cfg), sel(&languages()), sel(STYLES), sel(VERBOSITIES)).prop_map(|(planted, language, style, verbosity)| Case { planted, language, style: style.to_string(), verbosity: verbosity.to_string() }).boxed()
    }
    fn explicit_cases(&self, _tier: Tier) -> Vec<Case> {
        // fixed sweep: every language x style x verbosity over a few hand-picked shapes
        let shapes = [
            "<math><msup><mi>x</mi><mrow><mn>3.51</mn><mo>+</mo><mfrac><mrow><mi>a</mi><mo>+</mo><mn>12.25</mn></mrow><mrow><mi>c</mi><mo>+</mo><mn>47.75</mn></mrow></mfrac></mrow></msup></math>",
            "<math><mrow><mn>37.25</mn><mo>+</mo><mfrac><mn>11.52</mn><mn>48.75</mn></mfrac><mo>=</mo><msqrt><mn>92.16</mn></msqrt></mrow></math>",
            "<math><mrow><munderover><mo>∑</mo><mrow><mi>i</mi><mo>=</mo><mn>10.51</mn></mrow><mn>20.75</mn></munderover><msub><mi>a</mi><mn>31.25</mn></msub></mrow></math>",
            "<math><mrow><mo>(</mo><mtable><mtr><mtd><mn>11.25</mn></mtd><mtd><mn>22.35</mn></mtd></mtr><mtr><mtd><mn>33.45</mn></mtd><mtd><mn>44.55</mn></mtd></mtr></mtable><mo>)</mo></mrow></math>",
            // shapes whose intents come from the language-independent intent rules and need a rule (or a working
            // catch-all) in every language: signed entries of tables read as lines / systems / cases, magnitudes,
            // absolute values, binomials, factorials, logs with a base, definite integrals, limits, evaluated-at bars
            "<math><mtable><mtr><mtd><mi>x</mi></mtd><mtd><mo>=</mo></mtd><mtd><mrow><mo>-</mo><mn>21.25</mn></mrow></mtd></mtr><mtr><mtd><mi>y</mi></mtd><mtd><mo>=</mo></mtd><mtd><mrow><mo>+</mo><mn>42.35</mn></mrow></mtd></mtr></mtable></math>",
            "<math><mtable><mtr><mtd><mn>11.25</mn></mtd><mtd><mrow><mo>-</mo><mn>22.35</mn></mrow></mtd></mtr><mtr><mtd><mrow><mo>-</mo><mn>33.45</mn></mrow></mtd><mtd><mn>44.55</mn></mtd></mtr></mtable></math>",
            "<math><mrow><mi>f</mi><mo>(</mo><mi>x</mi><mo>)</mo><mo>=</mo><mrow><mo>{</mo><mtable><mtr><mtd><mn>11.25</mn></mtd><mtd><mrow><mo>-</mo><mn>22.35</mn></mrow><mo>&lt;</mo><mi>x</mi></mtd></mtr><mtr><mtd><mn>33.45</mn></mtd><mtd><mrow><mo>-</mo><mn>44.55</mn></mrow><mo>&gt;</mo><mi>x</mi></mtd></mtr></mtable></mrow></mrow></math>",
            "<math><mrow><mrow><mo>‖</mo><mn>21.25</mn><mo>‖</mo></mrow><mo>+</mo><mrow><mo>|</mo><mrow><mo>-</mo><mn>32.35</mn></mrow><mo>|</mo></mrow><mo>+</mo><mn>43.45</mn></mrow></math>",
            "<math><mrow><mrow><mo>(</mo><mfrac linethickness='0'><mn>21</mn><mn>12</mn></mfrac><mo>)</mo></mrow><mo>+</mo><mrow><mn>33</mn><mo>!</mo></mrow><mo>+</mo><mrow><msub><mi>log</mi><mn>24.25</mn></msub><mo>&#x2061;</mo><mn>35.35</mn></mrow></mrow></math>",
            "<math><mrow><mrow><msubsup><mo>∫</mo><mn>11.25</mn><mn>22.35</mn></msubsup><mrow><mn>33.45</mn><mi>x</mi></mrow><mi>d</mi><mi>x</mi></mrow><mo>+</mo><mrow><munder><mi>lim</mi><mrow><mi>x</mi><mo>→</mo><mn>44.55</mn></mrow></munder><mrow><mn>55.65</mn><mi>x</mi></mrow></mrow></mrow></math>",
            "<math><mrow><msubsup><mrow><mo>[</mo><mrow><mn>21.25</mn><mi>x</mi></mrow><mo>]</mo></mrow><mn>12.35</mn><mn>43.45</mn></msubsup><mo>+</mo><mover><mrow><mn>54.55</mn><mi>x</mi></mrow><mo>¯</mo></mover></mrow></math>",
        ];
        let mut out = vec![];
        for l in languages() {
            for s in STYLES {
                for v in VERBOSITIES {
                    for sh in shapes {
                        let tree = parse_xml(sh).unwrap();
                        let literals: Vec<String> = tree.tokens().iter().filter(|t| t.tag == "mn").map(|t| t.txt().to_string()).collect();
                        out.push(Case { planted: Planted { tree, literals }, language: l.clone(), style: s.to_string(), verbosity: v.to_string() });
                    }
                }
            }
        }
        out
    }
    fn eval(&self, case: &Case) -> Outcome {
        let mark = match configure(&case.language, &case.style, &case.verbosity) {
            Ok(m) => m,
            Err(e) => return Outcome::reject(&format!("configuration rejected: {}", e.chars().take(60).collect::<String>())),
        };
        let (tree, lits) = with_decimal_mark(&case.planted, &mark);
        let xml = tree.to_xml();
        if api::set_mathml(&xml).is_err() {
            return Outcome::reject("set_mathml failed");
        }
        // observation hook in /repo (cfg mathcat_verif): how often the optional-word post-processing of speech.rs
        // (is_repetitive) removed an optional word *together with the text in front of it* -- a listed finding whose
        // symptom (a missing operand) shows in any language and construct; it is keyed by this root cause
        let dropped_before = libmathcat::speech::VERIF_REPETITIVE_PREFIX_DROPPED.with(|c| c.get());
        let speech = match api::speech() {
            Ok(s) => s,
            Err(Fail::Err(_)) => return Outcome::reject("get_spoken_text Err (C15)"),
            Err(Fail::Panic(_)) => return Outcome::reject("get_spoken_text panic (C08)"),
        };
        let prefix_dropped = libmathcat::speech::VERIF_REPETITIVE_PREFIX_DROPPED.with(|c| c.get()) > dropped_before;
        let mut viols = vec![];
        let mut seen = std::collections::BTreeMap::new();
        for l in &lits {
            *seen.entry(l.clone()).or_insert(0usize) += 1;
        }
        for (l, k) in &seen {
            let got = count_maximal(&speech, l);
            if got < *k {
                let kinds = position_kinds(&tree);
                let _ = kinds;
                // signature: language-independent where possible: which construct swallowed it is in the detail
                let kind = structural_class(&tree, l).unwrap_or_else(|| kind_of_literal(&tree, l));
                // the row-in-exponent loss comes from the language-independent optional-word post-processing
                // (speech.rs is_repetitive) and is keyed without the language; rule-file losses are per language
                let sig = if prefix_dropped { "operand-not-spoken:is_repetitive-drops-text-before-optional-word".to_string() } else { format!("operand-not-spoken:{}:{}:{}", kind, case.language, case.style) };
                viols.push((sig, format!("literal {} occurs {} time(s) in the expression but {} time(s) in the speech\nlanguage={} style={} verbosity={}\nmathml: {}\nspeech: {}", l, k, got, case.language, case.style, case.verbosity, xml, speech)));
                break;
            }
        }
        // overview may omit, must not alter
        if let Ok(ov) = api::overview() {
            let is_part = |c: char| c.is_ascii_digit() || c == '.' || c == ',';
            let chars: Vec<char> = ov.chars().collect();
            let mut i = 0;
            while i < chars.len() {
                if chars[i].is_ascii_digit() {
                    let mut j = i;
                    while j < chars.len() && is_part(chars[j]) {
                        j += 1;
                    }
                    let run: String = chars[i..j].iter().collect();
                    let run = run.trim_end_matches(['.', ',']).to_string();
                    if run.contains(mark.as_str()) && run.chars().count() >= 4 && !lits.iter().any(|l| *l == run) {
                        viols.push(("overview-alters-number".to_string(), format!("overview contains {:?} which is not a literal of the expression {:?}\nmathml: {}\noverview: {}", run, lits, xml, ov)));
                        break;
                    }
                    i = j;
                } else {
                    i += 1;
                }
            }
        }
        let nontrivial = lits.len() >= 3 && literal_depth(&tree) >= 1;
        let mut o = Outcome::from_violations(viols, nontrivial);
        o.classes.push(format!("lang:{}", case.language));
        o.classes.push(format!("style:{}:{}", case.style, case.verbosity));
        for k in position_kinds(&tree) {
            o.classes.push(format!("position:{}", k));
        }
        o
    }
    fn to_json(&self, case: &Case) -> Value {
        let mut v = serde_json::to_value(case).unwrap();
        v["xml"] = Value::String(case.planted.tree.to_xml());
        v
    }
    fn from_json(&self, v: &Value) -> Option<Case> {
        if v.get("planted").is_none() {
            // hand-written replay: {"xml": .., "language": .., "style": .., "verbosity": ..}; literals = all mn tokens, '.' as mark
            let tree = parse_xml(v["xml"].as_str()?).ok()?;
            let literals: Vec<String> = tree.tokens().iter().filter(|t| t.tag == "mn").map(|t| t.txt().to_string()).collect();
            return Some(Case { planted: Planted { tree, literals }, language: v["language"].as_str()?.to_string(), style: v["style"].as_str().unwrap_or("ClearSpeak").to_string(), verbosity: v["verbosity"].as_str().unwrap_or("Medium").to_string() });
        }
        let mut v = v.clone();
        if let Some(o) = v.as_object_mut() {
            o.remove("xml");
        }
        serde_json::from_value(v).ok()
    }
    fn cases(&self) -> (usize, usize) {
        (6000, 200000)
    }
    fn rule(&self) -> String {
        "cases = textbook-grammar expressions (sums, products, relations, fractions, powers, indices, roots, function application, fences, big operators with limits, binomials, accents, tables, text) with a distinct decimal literal NN.DD (written with the session's decimal mark) planted at every operand position (25% identifiers, 10% one duplicate) x language x {ClearSpeak, SimpleSpeak} x {Terse, Medium, Verbose}, plus an enumerated sweep of all configurations over four fixed shapes; oracle = every literal occurs in get_spoken_text at least as often as in the expression, as a maximal digit/mark run; overview may omit but not alter; non-trivial = >= 3 literals with one nested >= 2 deep".into()
    }
}
