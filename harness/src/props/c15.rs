//! C15 — every shipped language, style and braille code loads and works.
//!
//! Configurations are enumerated from /repo/Rules at run time; the corpus is harvested from the repository's
//! own test sources (every `<math>…</math>` literal) and extended with generated textbook expressions.
use crate::engine::*;
use crate::gen::*;
use crate::norm::has_alnum_content;
use crate::props::c08::normalize_ids;
use proptest::prelude::*;
use serde::{Deserialize, Serialize};
use serde_json::Value;
use std::collections::{BTreeSet, HashMap};
use std::sync::mpsc::{channel, Receiver, Sender};
use std::sync::{Mutex, OnceLock};

#[derive(Clone, Debug, Serialize, Deserialize, PartialEq, Eq, Hash)]
pub struct Config {
    pub lang: String,
    pub style: String,
    pub verbosity: String,
    pub code: String,
    /// Some(base): an unknown region / language that must behave exactly like `base`
    #[serde(default)]
    pub falls_back_to: Option<String>,
}

#[derive(Clone, Debug, Serialize, Deserialize)]
pub struct Case {
    pub cfg: Config,
    pub expr: String,
    /// a configuration that was selected (and used on the same expression) earlier in the session: "can be selected"
    /// also means selected after something else
    #[serde(default)]
    pub before: Option<Config>,
}

pub struct C15;

pub const NAV_WALK: &[&str] = &["ZoomIn", "MoveNext", "MovePrevious", "ZoomOut", "ReadCurrent", "MoveStart", "MoveEnd"];

// ------------------------------------------------------------------------------------------
// corpus

/// every `<math>…</math>` literal of the repository's tests (those without Rust escapes), de-duplicated, sorted
pub fn corpus() -> &'static Vec<String> {
    static C: OnceLock<Vec<String>> = OnceLock::new();
    C.get_or_init(|| {
        let re = regex::Regex::new(r"<math[\s>][\s\S]*?</math>").unwrap();
        let mut set: BTreeSet<String> = BTreeSet::new();
        fn walk(d: &std::path::Path, out: &mut Vec<std::path::PathBuf>) {
            let Ok(rd) = std::fs::read_dir(d) else { return };
            let mut es: Vec<_> = rd.filter_map(|e| e.ok()).collect();
            es.sort_by_key(|e| e.file_name());
            for e in es {
                let p = e.path();
                if p.is_dir() {
                    walk(&p, out);
                } else if p.extension().map(|x| x == "rs").unwrap_or(false) {
                    out.push(p);
                }
            }
        }
        let mut files = vec![];
        walk(std::path::Path::new("/repo/tests"), &mut files);
        for f in files {
            let Ok(t) = std::fs::read_to_string(&f) else { continue };
            for m in re.find_iter(&t) {
                let s = m.as_str();
                if !s.contains('\\') && s.len() < 4000 {
                    set.insert(s.to_string());
                }
            }
        }
        set.into_iter().collect()
    })
}

pub fn styles() -> Vec<String> {
    let mut s: BTreeSet<String> = BTreeSet::new();
    fn walk(d: &std::path::Path, s: &mut BTreeSet<String>) {
        let Ok(rd) = std::fs::read_dir(d) else { return };
        for e in rd.filter_map(|e| e.ok()) {
            let p = e.path();
            let n = e.file_name().to_string_lossy().to_string();
            if p.is_dir() {
                if n != "zz" {
                    walk(&p, s);
                }
            } else if let Some(st) = n.strip_suffix("_Rules.yaml") {
                s.insert(st.to_string());
            }
        }
    }
    walk(std::path::Path::new("/repo/Rules/Languages"), &mut s);
    s.into_iter().collect()
}

/// all configurations: language x style x verbosity (braille fixed), every braille code (language fixed),
/// and the fall-back configurations
pub fn configs() -> Vec<Config> {
    let mut v = vec![];
    let codes = braille_codes();
    for (i, l) in languages().iter().enumerate() {
        for st in styles() {
            for vb in ["Terse", "Medium", "Verbose"] {
                v.push(Config { lang: l.clone(), style: st.clone(), verbosity: vb.to_string(), code: codes[i % codes.len()].clone(), falls_back_to: None });
            }
        }
    }
    for c in &codes {
        v.push(Config { lang: "en".into(), style: "ClearSpeak".into(), verbosity: "Medium".into(), code: c.clone(), falls_back_to: None });
    }
    for (l, base) in [("en-zz", "en"), ("es-mx", "es"), ("sv-fi", "sv"), ("xx", "en"), ("qq-rr", "en")] {
        v.push(Config { lang: l.into(), style: "ClearSpeak".into(), verbosity: "Medium".into(), code: "Nemeth".into(), falls_back_to: Some(base.into()) });
    }
    v
}

// ------------------------------------------------------------------------------------------
// evaluation of one (configuration, expression)

pub type Out = Vec<(String, Result<String, String>)>;

fn apply_cfg(cfg: &Config) -> Result<(), (String, Fail)> {
    for (k, v) in [("TTS", "None"), ("Language", cfg.lang.as_str()), ("SpeechStyle", cfg.style.as_str()), ("Verbosity", cfg.verbosity.as_str()), ("BrailleCode", cfg.code.as_str())] {
        api::set_pref(k, v).map_err(|e| (format!("{}={}", k, v), e))?;
    }
    Ok(())
}

/// all outputs; Err = a panic (call name, info)
fn outputs(expr: &str) -> Result<Out, (String, PanicInfo)> {
    fn flat(name: &str, r: Api<String>) -> Result<Result<String, String>, (String, PanicInfo)> {
        match r {
            Ok(s) => Ok(Ok(s)),
            Err(Fail::Err(e)) => Ok(Err(e)),
            Err(Fail::Panic(p)) => Err((name.to_string(), p)),
        }
    }
    let mut out: Out = vec![];
    let canon = flat("set_mathml", api::set_mathml(expr))?;
    let m = canon.clone().unwrap_or_default();
    let failed = canon.is_err();
    out.push(("set_mathml".into(), canon.map(|s| normalize_ids(&s, &m))));
    if failed {
        return Ok(out);
    }
    out.push(("get_spoken_text".into(), flat("get_spoken_text", api::speech())?.map(|s| normalize_ids(&s, &m))));
    out.push(("get_overview_text".into(), flat("get_overview_text", api::overview())?.map(|s| normalize_ids(&s, &m))));
    out.push(("get_braille".into(), flat("get_braille", api::braille(""))?));
    for c in NAV_WALK {
        out.push((format!("navigate:{}", c), flat("do_navigate_command", api::nav_cmd(c))?.map(|s| normalize_ids(&s, &m))));
    }
    out.push(("get_navigation_braille".into(), flat("get_navigation_braille", api::nav_braille())?));
    Ok(out)
}

/// a long-lived reference session per configuration (rules stay loaded): used for the English reference and
/// for the base language of fall-back configurations
struct RefServer {
    tx: Sender<String>,
    rx: Receiver<Result<Out, String>>,
}

fn reference(cfg: &Config, expr: &str) -> Result<Out, String> {
    static SERVERS: OnceLock<Mutex<HashMap<Config, RefServer>>> = OnceLock::new();
    static CACHE: OnceLock<Mutex<HashMap<(Config, String), Result<Out, String>>>> = OnceLock::new();
    let cache = CACHE.get_or_init(|| Mutex::new(HashMap::new()));
    if let Some(r) = cache.lock().unwrap().get(&(cfg.clone(), expr.to_string())) {
        return r.clone();
    }
    let mut servers = SERVERS.get_or_init(|| Mutex::new(HashMap::new())).lock().unwrap();
    let mut dead = false;
    let r = {
        let s = servers.entry(cfg.clone()).or_insert_with(|| {
            let (tx, rx_in) = channel::<String>();
            let (tx_out, rx) = channel::<Result<Out, String>>();
            let cfg = cfg.clone();
            std::thread::Builder::new()
                .stack_size(SESSION_STACK)
                .spawn(move || {
                    let _ = api::set_rules_dir(REPO_RULES);
                    let ok = apply_cfg(&cfg).map_err(|(w, e)| format!("reference configuration rejected: {} ({})", w, e.text().chars().take(60).collect::<String>()));
                    while let Ok(expr) = rx_in.recv() {
                        let r = match &ok {
                            Err(e) => Err(e.clone()),
                            Ok(()) => outputs(&expr).map_err(|(w, p)| format!("reference panicked in {}: {}", w, p.signature())),
                        };
                        let panicked = matches!(&r, Err(e) if e.starts_with("reference panicked"));
                        if tx_out.send(r).is_err() || panicked {
                            break; // a session that panicked is not reused
                        }
                    }
                })
                .expect("spawn reference session");
            RefServer { tx, rx }
        });
        if s.tx.send(expr.to_string()).is_err() {
            dead = true;
            Err("reference session gone".to_string())
        } else {
            match s.rx.recv() {
                Ok(r) => {
                    if matches!(&r, Err(e) if e.starts_with("reference panicked")) {
                        dead = true;
                    }
                    r
                }
                Err(_) => {
                    dead = true;
                    Err("reference session died".to_string())
                }
            }
        }
    };
    if dead {
        servers.remove(cfg);
    }
    cache.lock().unwrap().insert((cfg.clone(), expr.to_string()), r.clone());
    r
}

/// the class of an error text: its first line and its last informative line, digits and ids masked
pub fn err_class(e: &str) -> String {
    let ids = regex::Regex::new(r"M[0-9a-z]{7}-\d+").unwrap();
    let e = ids.replace_all(e, "ID");
    let lines: Vec<&str> = e.lines().map(|l| l.trim()).filter(|l| !l.is_empty() && !l.starts_with('<') && !l.starts_with("caused by:") || l.len() > 12 && l.starts_with("caused by:")).collect();
    let pick = |l: &str| -> String { l.chars().map(|c| if c.is_ascii_digit() { '#' } else { c }).take(70).collect() };
    // the rule that failed, if named
    let rule = regex::Regex::new(r#"pattern: "([^"]+)" for "([^"]+)""#).unwrap();
    if let Some(c) = rule.captures(&e) {
        let last = lines.iter().rev().find(|l| !l.starts_with("The patterns are in") && !l.starts_with("x:") && !l.starts_with('[')).copied().unwrap_or("");
        return format!("rule {} for {}: {}", &c[1], &c[2], pick(last.trim_start_matches("caused by:").trim()));
    }
    match (lines.first(), lines.last()) {
        (Some(a), Some(b)) if a != b => format!("{} / {}", pick(a), pick(b.trim_start_matches("caused by:").trim())),
        (Some(a), _) => pick(a),
        _ => "empty error".to_string(),
    }
}

fn english() -> Config {
    Config { lang: "en".into(), style: "ClearSpeak".into(), verbosity: "Medium".into(), code: "Nemeth".into(), falls_back_to: None }
}

impl Property for C15 {
    type Case = Case;
    fn id(&self) -> &'static str {
        "C15"
    }
    fn strategy(&self, tier: Tier) -> BoxedStrategy<Case> {
        let cfgs = configs();
        let operand = prop_oneof![4 => tok_ident(), 3 => tok_number(), 1 => one_char_of("αβγθλΔΩ∞").prop_map(|s| MNode::mi(&s)), 1 => select_str(ELEMENTS).prop_map(|s| MNode::mi(&s))].boxed();
        let generated = textbook(operand, TexCfg { depth: if tier == Tier::Thorough { 5 } else { 4 }, size: 24, tables: true, text: true }).prop_map(|n| MNode::math(vec![n]).to_xml());
        let n = corpus().len();
        let expr = prop_oneof![1 => (0..n.max(1)).prop_map(|i| corpus().get(i).cloned().unwrap_or_default()), 2 => generated];
        // one case in three selects another configuration first (half of those: the same style and verbosity with the
        // variant's own language, the closest relative) and speaks the expression there
        (sel(&cfgs), expr, 0..6u8, sel(&cfgs))
            .prop_map(|(cfg, expr, visit, other)| {
                let before = match visit {
                    0 => Some(other),
                    1 => {
                        let mut b = cfg.clone();
                        b.lang = cfg.lang.split('-').next().unwrap_or("en").to_string();
                        b.falls_back_to = None;
                        if b.lang == cfg.lang {
                            b.lang = "en".to_string();
                        }
                        Some(b)
                    }
                    _ => None,
                };
                Case { cfg, expr, before }
            })
            .boxed()
    }
    fn explicit_cases(&self, tier: Tier) -> Vec<Case> {
        // every configuration x a window of the harvested corpus (the whole corpus in the thorough tier);
        // ordered by configuration so that consecutive cases share the loaded rules
        let seed = std::env::var("VERIF_SEED").ok().and_then(|s| s.parse::<u64>().ok()).unwrap_or(20260926);
        let all = corpus();
        let window: Vec<&String> = if tier == Tier::Thorough || all.len() <= 150 {
            all.iter().collect()
        } else {
            // a deterministic, seed-selected spread over the (sorted) corpus
            let start = (seed as usize) % all.len();
            let step = all.len() / 150;
            (0..150).map(|k| &all[(start + k * step) % all.len()]).collect()
        };
        let mut out = vec![];
        for cfg in configs() {
            for e in &window {
                out.push(Case { cfg: cfg.clone(), expr: (*e).clone(), before: None });
            }
        }
        out
    }
    fn eval(&self, case: &Case) -> Outcome {
        let cfg = &case.cfg;
        let key_of = |c: &Config| -> String { if c.code != "Nemeth" && c.lang == "en" { format!("code:{}", c.code) } else { format!("lang:{}", c.lang) } };
        let mut viols: Vec<(String, String)> = vec![];
        let ctx = |s: String| format!("{}\nconfiguration: Language={} SpeechStyle={} Verbosity={} BrailleCode={}{}\nexpression: {}", s, cfg.lang, cfg.style, cfg.verbosity, cfg.code, case.before.as_ref().map(|b| format!(" (selected after Language={} SpeechStyle={} Verbosity={} BrailleCode={})", b.lang, b.style, b.verbosity, b.code)).unwrap_or_default(), case.expr);
        if let Some(b) = &case.before {
            if apply_cfg(b).is_ok() {
                let _ = outputs(&case.expr);
            }
        }
        match apply_cfg(cfg) {
            Ok(()) => {}
            Err((what, Fail::Err(e))) => {
                return Outcome::violation(format!("configuration-rejected:{}", what), ctx(format!("set_preference({}) failed: {}", what, e.chars().take(600).collect::<String>())));
            }
            Err((what, Fail::Panic(p))) => {
                return Outcome::violation(p.signature(), ctx(format!("set_preference({}) panicked: {} at {}", what, p.msg, p.loc)));
            }
        }
        // the English reference: which failures are not specific to this configuration, and is this case non-trivial
        let en = reference(&english(), &case.expr);
        let en = match en {
            Ok(o) => o,
            Err(e) => return Outcome::reject(&format!("English reference unavailable: {}", e.chars().take(60).collect::<String>())),
        };
        if en.first().map(|x| x.1.is_err()).unwrap_or(true) {
            return Outcome::reject("expression rejected by set_mathml under English");
        }
        if !parse_xml(&case.expr).map(|t| t.tokens().iter().any(|k| !k.txt().trim().is_empty())).unwrap_or(true) {
            return Outcome::reject("expression without any token text (nothing to speak or navigate)");
        }
        let out = match outputs(&case.expr) {
            Ok(o) => o,
            Err((w, p)) => {
                // a panic that English shows as well is C08's business (listed there); one that is specific to the configuration is reported here
                let who = if w.contains("braille") { format!("code:{}", cfg.code) } else { format!("lang:{}", cfg.lang) };
                return Outcome::violation(format!("{}@{}", p.signature(), who), ctx(format!("{} panicked: {} at {}", w, p.msg, p.loc)));
            }
        };
        // a regional variant selected in a session that has already used other configurations (the cases of a chunk share
        // one session) must load its own files: speech and overview equal those of a session that only ever had this
        // language, style and verbosity
        if cfg.lang.contains('-') && cfg.falls_back_to.is_none() {
            let mut only = cfg.clone();
            only.code = "Nemeth".to_string();
            if let Ok(fresh) = reference(&only, &case.expr) {
                for name in ["get_spoken_text", "get_overview_text"] {
                    let here = out.iter().find(|x| x.0 == name).map(|x| &x.1);
                    let there = fresh.iter().find(|x| x.0 == name).map(|x| &x.1);
                    if let (Some(Ok(a)), Some(Ok(b))) = (here, there) {
                        if a != b {
                            viols.push((format!("regional-variant-not-loaded:{}:{}", cfg.lang, name), ctx(format!("{} in a session that used other configurations before differs from a session that only had Language={}
here:  {}
fresh: {}", name, cfg.lang, a, b))));
                            break;
                        }
                    }
                }
            }
        }
        let en_of = |name: &str| en.iter().find(|x| x.0 == name).map(|x| &x.1);
        let is_speech_cfg = key_of(cfg).starts_with("lang:");
        for (name, r) in &out {
            match r {
                Err(e) => {
                    let class = err_class(e);
                    let mut same_in_english = matches!(en_of(name), Some(Err(e2)) if err_class(e2) == class);
                    if !same_in_english && cfg.lang != "en" {
                        // the same tree under English: languages parse numbers differently (3,76 is one number in sv),
                        // so English is also asked about the canonical form this configuration produced
                        if let Some(Ok(canon)) = out.iter().find(|x| x.0 == "set_mathml").map(|x| &x.1) {
                            if let Ok(en2) = reference(&english(), canon) {
                                same_in_english = matches!(en2.iter().find(|x| &x.0 == name).map(|x| &x.1), Some(Err(e2)) if err_class(e2) == class);
                            }
                        }
                    }
                    // braille calls are keyed by code, everything else by language; the call is not part of the key
                    // (one failing speech rule shows in speech and in every navigation command that speaks)
                    let who = if class.contains("NAV_NODE_NOT_FOUND") || class.contains("Navigation exceeded limit") {
                        // raised by the navigation engine when the node it lands on gets no speech of its own (function
                        // names spoken by their parent's rule, blanks, empty bases): English shows both on ordinary
                        // expressions, other languages on the expressions *they* parse that way -- one class, not one per language
                        "navigation-engine".to_string()
                    } else if same_in_english {
                        "any-configuration".to_string()
                    } else if name.contains("braille") {
                        format!("code:{}", cfg.code)
                    } else {
                        format!("lang:{}", cfg.lang)
                    };
                    viols.push((format!("err:{}:{}", who, class), ctx(format!("{} returned Err: {}", name, e.chars().take(900).collect::<String>()))));
                }
                Ok(s) => {
                    if name == "get_spoken_text" && s.trim().is_empty() {
                        if let Ok(t) = parse_xml(&case.expr) {
                            if has_alnum_content(&t) {
                                viols.push((format!("empty-speech:{}", key_of(cfg)), ctx("speech is empty although the expression has letters or digits".to_string())));
                            }
                        }
                    }
                }
            }
        }
        // fall-back configurations behave exactly like their base
        // (numbers with separators are excluded: the separator characters are chosen from the language *code*, by design)
        let separator_sensitive = case.expr.chars().any(|c| c.is_ascii_digit()) && (case.expr.contains(',') || case.expr.contains('.') || case.expr.contains('\u{a0}'));
        if let (Some(base), false) = (&cfg.falls_back_to, separator_sensitive) {
            let bcfg = Config { lang: base.clone(), falls_back_to: None, ..cfg.clone() };
            match reference(&bcfg, &case.expr) {
                Ok(b) => {
                    for ((n1, r1), (_, r2)) in out.iter().zip(b.iter()) {
                        if r1.as_ref().ok() != r2.as_ref().ok() {
                            viols.push((format!("fallback-differs:{}->{}:{}", cfg.lang, base, n1), ctx(format!("{} under Language={} differs from Language={}\n{}: {:?}\n{}: {:?}", n1, cfg.lang, base, cfg.lang, r1, base, r2))));
                            break;
                        }
                    }
                }
                Err(e) => return Outcome::reject(&format!("base reference unavailable: {}", e.chars().take(60).collect::<String>())),
            }
        }
        // non-trivial: a rule that is not the English default fired
        let speech = out.iter().find(|x| x.0 == "get_spoken_text").and_then(|x| x.1.as_ref().ok());
        let en_speech = en_of("get_spoken_text").and_then(|x| x.as_ref().ok());
        let two_d = case.expr.contains("<mfrac") || case.expr.contains("<msqrt") || case.expr.contains("<msup") || case.expr.contains("<msub") || case.expr.contains("<mtable") || case.expr.contains("<munder") || case.expr.contains("<mover") || case.expr.contains("<mroot");
        let nontrivial = if is_speech_cfg && !cfg.lang.starts_with("en") && cfg.falls_back_to.is_none() { speech.is_some() && speech != en_speech } else { two_d || !case.expr.is_ascii() };
        let mut seen_sigs = std::collections::HashSet::new();
        viols.retain(|v| seen_sigs.insert(v.0.clone()));
        let mut o = Outcome::from_violations(viols, nontrivial);
        o.classes = vec![format!("{}", key_of(cfg)), format!("style:{}", cfg.style), format!("verbosity:{}", cfg.verbosity), format!("braille:{}", cfg.code)];
        o
    }
    fn to_json(&self, case: &Case) -> Value {
        serde_json::to_value(case).unwrap()
    }
    fn from_json(&self, v: &Value) -> Option<Case> {
        serde_json::from_value(v.clone()).ok()
    }
    fn max_shrink_iters(&self) -> usize {
        120
    }
    fn cases(&self) -> (usize, usize) {
        (6000, 200000)
    }
    fn rule(&self) -> String {
        format!(
            "configurations enumerated from Rules/ at run time: {} languages/regions x {} styles x 3 verbosities, {} braille codes, 5 fall-back configurations (unknown region / unknown language) = {} configurations; corpus = {} distinct <math> literals harvested from the repository's tests (a seed-selected spread of 150 per configuration in the quick tier, all of them in the thorough tier) plus generated textbook expressions; oracle = selecting the configuration succeeds; set_mathml, speech, overview, braille, the navigation walk {:?} and navigation braille all return Ok; speech is non-empty when the expression has letters or digits; a fall-back configuration gives exactly the outputs of its base language; an error that English produces too (same error class) is keyed any-configuration, otherwise by language / code; non-trivial = speech differs from the English speech (languages) or the expression has a 2-D element or non-ASCII character (English, braille codes)",
            languages().len(),
            styles().len(),
            braille_codes().len(),
            configs().len(),
            corpus().len(),
            NAV_WALK
        )
    }
}
