//! C12 — preferences read back as set, persist, and bad settings are rejected (reference model).
use crate::engine::*;
use crate::hist::{hostile_value, known_prefs};
use proptest::prelude::*;
use serde::{Deserialize, Serialize};
use serde_json::Value;
use std::collections::BTreeMap;

#[derive(Clone, Debug, Serialize, Deserialize)]
pub struct Case {
    pub expr: u8,
    pub sets: Vec<(String, String)>,
}

pub struct C12;

pub const EXPRS: &[&str] = &[
    "<math><mrow><mi>Γ</mi><mo>+</mo><mfrac><mrow><mi>x</mi><mo>+</mo><mn>1.5</mn></mrow><mi>B</mi></mfrac><mo>=</mo><msup><mi mathvariant='double-struck'>R</mi><mn>2</mn></msup></mrow></math>",
    "<math><mrow><mi>ϕ</mi><mo>(</mo><mi>x</mi><mo>)</mo><mo>=</mo><msqrt><mrow><mn>3,141.5</mn><mo>−</mo><mi mathvariant='fraktur'>A</mi></mrow></msqrt></mrow></math>",
    "<math><mrow><mo>(</mo><mtable><mtr><mtd><mi>a</mi></mtd><mtd><mi mathvariant='sans-serif'>b</mi></mtd></mtr><mtr><mtd><mn>12</mn></mtd><mtd><mi>θ</mi></mtd></mtr></mtable><mo>)</mo></mrow></math>",
];

const NUMERIC: &[&str] = &["Pitch", "Rate", "Volume", "CapitalLetters_Pitch", "MathRate", "PauseFactor"];
/// preferences that feed canonicalisation or file selection and legitimately reach everything
const GLOBAL: &[&str] = &["Language", "LanguageAuto", "Chemistry", "DecimalSeparator", "DecimalSeparators", "BlockSeparators", "CheckRuleFiles"];
const NAVIGATION: &[&str] = &["NavMode", "ResetNavMode", "Overview", "ResetOverview", "NavVerbosity", "AutoZoomOut", "CopyAs"];
const BRAILLE: &[&str] = &["BrailleCode", "BrailleNavHighlight", "UseSpacesAroundAllOperators"];

fn kind_of(name: &str) -> Option<&'static str> {
    known_prefs().iter().find(|p| p.0 == name).map(|p| p.1)
}

fn is_bool_literal(v: &str) -> bool {
    let l = v.to_lowercase();
    l == "true" || l == "false"
}

/// what the documentation says must be rejected
fn must_reject(name: &str, value: &str) -> Option<&'static str> {
    match kind_of(name) {
        None => Some("unknown-name"),
        Some("number") => {
            if value.parse::<f64>().is_err() {
                Some("non-number-for-number")
            } else {
                None
            }
        }
        Some("boolean") => {
            if is_bool_literal(value) {
                None
            } else {
                Some("non-boolean-for-boolean")
            }
        }
        Some(_) => {
            if is_bool_literal(value) {
                Some("boolean-for-string")
            } else if (name == "Language" || name == "LanguageAuto") && value != "Auto" && value.split('-').next().map(|l| l.len() != 2).unwrap_or(true) {
                Some("malformed-language-tag")
            } else if name == "LanguageAuto" && value == "Auto" {
                Some("languageauto-auto")
            } else {
                None
            }
        }
    }
}

/// the documented normalisation of an accepted value
fn normalised(name: &str, value: &str) -> String {
    match kind_of(name) {
        Some("number") => value.parse::<f64>().map(|f| f.to_string()).unwrap_or_else(|_| value.to_string()),
        Some("boolean") => value.to_lowercase(),
        _ => {
            if (name == "Language" || name == "LanguageAuto") && value != "Auto" {
                let mut it = value.split('-');
                let l = it.next().unwrap_or("");
                match it.next() {
                    Some(c) if !c.is_empty() => format!("{}-{}", l, c),
                    _ => l.to_string(),
                }
            } else {
                value.to_string()
            }
        }
    }
}

#[derive(Debug, Clone, PartialEq, Eq)]
struct Outputs {
    canon: Result<String, ()>,
    speech: Result<String, ()>,
    braille: Result<String, ()>,
}

fn outputs(expr: &str) -> Result<Outputs, PanicInfo> {
    let f = |r: Api<String>| match r {
        Ok(s) => Ok(Ok(s)),
        Err(Fail::Err(_)) => Ok(Err(())),
        Err(Fail::Panic(p)) => Err(p),
    };
    let canon = f(api::set_mathml(expr))?;
    let m = canon.clone().unwrap_or_default();
    let canon = canon.map(|c| crate::props::c08::normalize_ids(&c, &m));
    let speech = f(api::speech())?.map(|s| crate::props::c08::normalize_ids(&s, &m));
    let braille = f(api::braille(""))?;
    Ok(Outputs { canon, speech, braille })
}

fn snapshot() -> BTreeMap<String, String> {
    let mut m = BTreeMap::new();
    for (n, _, _) in known_prefs() {
        if let Ok(v) = api::get_pref(n) {
            m.insert(n.to_string(), v);
        }
    }
    m
}

/// outputs that must NOT change when `name` changes (coarse scope table), given the current braille code
fn out_of_scope(name: &str, code: &str) -> (bool, bool, bool) {
    // (canonical, speech, braille) must stay
    if GLOBAL.contains(&name) {
        return (false, false, false);
    }
    if let Some(c) = name.split('_').next() {
        if ["UEB", "Vietnam", "LaTeX"].contains(&c) && name.contains('_') {
            // only judged while a shipped code other than the preference's own is selected (an unknown code name
            // falls back to some other code's files)
            let shipped = crate::gen::braille_codes().iter().any(|k| k == code);
            return (true, true, shipped && c != code);
        }
    }
    if BRAILLE.contains(&name) {
        return (true, true, false);
    }
    if NAVIGATION.contains(&name) {
        return (true, true, true);
    }
    // Speech section and API speech-engine preferences: never braille or the canonical MathML
    (true, false, true)
}

impl Property for C12 {
    type Case = Case;
    fn id(&self) -> &'static str {
        "C12"
    }
    fn session_per_case(&self) -> bool {
        true
    }
    fn strategy(&self, tier: Tier) -> BoxedStrategy<Case> {
        let kp = known_prefs();
        let names: Vec<String> = kp.iter().map(|p| p.0.to_string()).collect();
        let valid: Vec<(String, String)> = kp.iter().flat_map(|(n, _, vs)| vs.iter().map(move |v| (n.to_string(), v.to_string()))).collect();
        let name = prop_oneof![
            10 => proptest::sample::select(names.clone()),
            1 => proptest::sample::select(names.clone()).prop_map(|s| s.to_lowercase()),
            1 => proptest::sample::select(names.clone()).prop_map(|s| format!("{}s", s)),
            1 => "[A-Z][A-Za-z_]{2,10}",
            1 => sel_str(&["", "NoSuchPref", "Braille", "Speech", "UEB", "TTs", "language", "ClearSpeak"]),
        ];
        let pair = prop_oneof![
            6 => proptest::sample::select(valid),
            4 => (name, hostile_value()),
        ];
        let max = if tier == Tier::Thorough { 14 } else { 10 };
        // some calls are repeated later in the history (setting a preference to the value it already has)
        (0..EXPRS.len() as u8, proptest::collection::vec(pair, 1..=max), proptest::collection::vec((any::<u16>(), any::<u16>()), 0..3))
            .prop_map(|(expr, mut sets, dups)| {
                for (a, b) in dups {
                    let i = (a as usize * sets.len()) >> 16;
                    let j = i + 1 + ((b as usize * (sets.len() - i)) >> 16);
                    let copy = sets[i].clone();
                    sets.insert(j.min(sets.len()), copy);
                }
                Case { expr, sets }
            })
            .boxed()
    }
    fn explicit_cases(&self, _tier: Tier) -> Vec<Case> {
        // exhaustive sweep: every known name x {each listed valid value, wrong-kind value, empty value} in a fresh session
        let mut out = vec![];
        for (n, kind, vals) in known_prefs() {
            for v in vals {
                out.push(Case { expr: 0, sets: vec![(n.to_string(), v.to_string())] });
            }
            let wrong = match kind {
                "number" => "abc",
                "boolean" => "maybe",
                _ => "true",
            };
            out.push(Case { expr: 0, sets: vec![(n.to_string(), wrong.to_string())] });
            out.push(Case { expr: 0, sets: vec![(n.to_string(), String::new())] });
            out.push(Case { expr: 1, sets: vec![(format!("{}x", n), "true".to_string())] });
        }
        // repeat sweep: every listed valid value set twice in a row, in a session where Language=Auto / LanguageAuto are in use
        for (n, _, vals) in known_prefs() {
            for v in vals {
                out.push(Case { expr: 0, sets: vec![("Language".to_string(), "Auto".to_string()), ("LanguageAuto".to_string(), "es".to_string()), (n.to_string(), v.to_string()), (n.to_string(), v.to_string())] });
            }
        }
        // scope sweep: every shipped braille code x every code-specific preference changed to another value
        for code in crate::gen::braille_codes() {
            for (n, _, vals) in known_prefs() {
                if !(n.starts_with("UEB_") || n.starts_with("Vietnam_") || n.starts_with("LaTeX_")) {
                    continue;
                }
                for v in vals.iter().rev().take(2) {
                    for e in 0..EXPRS.len() as u8 {
                        out.push(Case { expr: e, sets: vec![("BrailleCode".to_string(), code.clone()), (n.to_string(), v.to_string())] });
                    }
                }
            }
        }
        out
    }
    fn eval(&self, case: &Case) -> Outcome {
        let expr = EXPRS[(case.expr as usize) % EXPRS.len()];
        let mut viols: Vec<(String, String)> = vec![];
        let mut classes = vec![];
        let mut transcript: Vec<String> = vec![];
        let mut model: BTreeMap<String, String> = BTreeMap::new();
        let mut had_reject_with_snapshot = false;
        let mut had_persist_check = false;
        let mut before = match outputs(expr) {
            Ok(o) => o,
            Err(p) => return Outcome::reject(&format!("panic before any preference was set (C08): {}", p.signature())),
        };
        'outer: for (name, value) in &case.sets {
            let snap = snapshot();
            let r = api::set_pref(name, value);
            transcript.push(format!("set_preference({:?},{:?}) -> {}", name, value, match &r {
                Ok(_) => "Ok".to_string(),
                Err(e) => format!("{}", e.text().chars().take(70).collect::<String>().replace('\n', " ")),
            }));
            let tr = || transcript.join("\n  ");
            let expected_reject = must_reject(name, value);
            classes.push(format!("{}:{}", kind_of(name).unwrap_or("unknown"), if expected_reject.is_some() { "invalid" } else { "valid" }));
            match r {
                Err(Fail::Panic(p)) => {
                    viols.push((p.signature(), format!("set_preference({:?},{:?}) panicked: {} at {}\n  {}", name, value, p.msg, p.loc, tr())));
                    break 'outer;
                }
                Ok(()) => {
                    if let Some(why) = expected_reject {
                        viols.push((format!("accepted:{}", why), format!("set_preference({:?},{:?}) must be rejected ({}) but returned Ok\n  {}", name, value, why, tr())));
                        break 'outer;
                    }
                    let want = normalised(name, value);
                    match api::get_pref(name) {
                        Ok(got) if got == want => {}
                        Ok(got) => {
                            viols.push((format!("readback:{}", kind_of(name).unwrap_or("unknown")), format!("set_preference({:?},{:?}) accepted but get_preference returns {:?} (expected {:?})\n  {}", name, value, got, want, tr())));
                            break 'outer;
                        }
                        Err(e) => {
                            viols.push(("readback:error".into(), format!("set_preference({:?},{:?}) accepted but get_preference fails: {}\n  {}", name, value, e.text(), tr())));
                            break 'outer;
                        }
                    }
                    // (5) setting a preference to the value it already has changes no preference
                    if snap.get(name.as_str()) == Some(&want) {
                        let snap2 = snapshot();
                        if snap != snap2 {
                            let diff: Vec<String> = snap2.iter().filter(|(k, v)| snap.get(*k) != Some(v)).map(|(k, v)| format!("{}: {:?} -> {:?}", k, snap.get(k), v)).collect();
                            viols.push((format!("unchanged-value-changed-preferences:{}", name), format!("set_preference({:?},{:?}) did not change the value but other preferences changed: {:?}\n  {}", name, value, diff, tr())));
                            break 'outer;
                        }
                    }
                    model.insert(name.clone(), want.clone());
                    // derived preferences are "unknown until read"
                    if ["Language", "LanguageAuto", "DecimalSeparator"].contains(&name.as_str()) {
                        model.remove("DecimalSeparators");
                        model.remove("BlockSeparators");
                    }
                    if name == "Language" && snap.get("Language") != Some(&want) {
                        model.remove("LanguageAuto");
                    }
                    // (4) scope: outputs of the expression set *after* the change
                    let code = api::get_pref("BrailleCode").unwrap_or_default();
                    let after = match outputs(expr) {
                        Ok(o) => o,
                        Err(p) => {
                            viols.push((p.signature(), format!("panic after accepted set_preference({:?},{:?}): {} at {}\n  {}", name, value, p.msg, p.loc, tr())));
                            break 'outer;
                        }
                    };
                    let (keep_canon, keep_speech, keep_braille) = out_of_scope(name, &code);
                    let changed_before = snap.get(name.as_str()) != api::get_pref(name).ok().as_ref();
                    // (5b) ... and no output
                    if !changed_before && before != after {
                        viols.push((format!("unchanged-value-changed-outputs:{}", name), format!("set_preference({:?},{:?}) did not change the value but outputs changed\nbefore: {:?}\nafter:  {:?}\n  {}", name, value, before, after, tr())));
                        break 'outer;
                    }
                    if changed_before {
                        let mut leaked = vec![];
                        if keep_canon && before.canon != after.canon {
                            leaked.push("canonical-mathml");
                        }
                        if keep_speech && before.speech != after.speech {
                            leaked.push("speech");
                        }
                        if keep_braille && before.braille != after.braille {
                            leaked.push("braille");
                        }
                        if !leaked.is_empty() {
                            let group = if name.contains('_') { name.split('_').next().unwrap_or("").to_string() } else { name.clone() };
                            viols.push((format!("scope:{}:changes-{}", group, leaked.join("+")), format!("changing {} to {:?} (braille code {}) changed {:?}, which is outside its documented scope\nbefore: {:?}\nafter:  {:?}\n  {}", name, value, code, leaked, before, after, tr())));
                            break 'outer;
                        }
                    }
                    // (1) persistence across new expressions
                    for (n, want) in &model {
                        if let Ok(got) = api::get_pref(n) {
                            if &got != want {
                                viols.push((format!("persistence:{}", kind_of(n).unwrap_or("unknown")), format!("{} was set to {:?} but reads {:?} after later calls\n  {}", n, want, got, tr())));
                                break 'outer;
                            }
                        }
                    }
                    had_persist_check = model.len() >= 2;
                    before = after;
                }
                Err(Fail::Err(_)) => {
                    // (3) a rejected call changes nothing
                    let snap2 = snapshot();
                    if snap != snap2 {
                        let diff: Vec<String> = snap2.iter().filter(|(k, v)| snap.get(*k) != Some(v)).map(|(k, v)| format!("{}: {:?} -> {:?}", k, snap.get(k), v)).collect();
                        viols.push((format!("rejected-call-changed-preferences:{}", kind_of(name).unwrap_or("unknown")), format!("set_preference({:?},{:?}) was rejected but preferences changed: {:?}\n  {}", name, value, diff, tr())));
                        break 'outer;
                    }
                    let after = match outputs(expr) {
                        Ok(o) => o,
                        Err(p) => {
                            viols.push((p.signature(), format!("panic after rejected set_preference({:?},{:?}): {} at {}\n  {}", name, value, p.msg, p.loc, tr())));
                            break 'outer;
                        }
                    };
                    if after != before {
                        viols.push((format!("rejected-call-changed-outputs:{}", kind_of(name).unwrap_or("unknown")), format!("set_preference({:?},{:?}) was rejected but outputs changed\nbefore: {:?}\nafter:  {:?}\n  {}", name, value, before, after, tr())));
                        break 'outer;
                    }
                    had_reject_with_snapshot = true;
                }
            }
        }
        let mut o = Outcome::from_violations(viols, had_reject_with_snapshot || had_persist_check);
        o.classes = classes;
        o
    }
    fn to_json(&self, case: &Case) -> Value {
        serde_json::to_value(case).unwrap()
    }
    fn from_json(&self, v: &Value) -> Option<Case> {
        serde_json::from_value(v.clone()).ok()
    }
    fn cases(&self) -> (usize, usize) {
        (3000, 80000)
    }
    fn rule(&self) -> String {
        "cases = histories of 1..10 (thorough 14) set_preference calls (names: every key of the known preference table incl. API defaults, case variants, near misses, random names; values: listed valid values, wrong kind, empty, differently cased, numeric spellings, hostile strings) on one of three expressions in a fresh session, plus the exhaustive sweep name x {valid values, wrong-kind value, empty value, unknown near-miss name}; oracle (reference model = map name -> normalised value): accepted => get_preference returns the normalised value, now and after later calls and new expressions; unknown name / wrong kind / malformed language tag => Err; after a rejected call every known preference reads as before and canonical MathML, speech and braille are identical; scope: a changed preference leaves outputs outside its documented scope unchanged (coarse table, global preferences exempt) ; a call that sets a preference to the value it already has (calls are repeated later in the history, and every listed value is set twice in a row in a Language=Auto/LanguageAuto session) changes no preference and no output; non-trivial = a rejected call with snapshot comparison or >= 2 modelled preferences re-read".into()
    }
}

fn sel_str(v: &[&'static str]) -> BoxedStrategy<String> {
    proptest::sample::select(v.to_vec()).prop_map(|s| s.to_string()).boxed()
}
