pub mod c01;
