pub mod c01;
pub mod c02;
pub mod c03;
pub mod c04;
pub mod c08;
pub mod c16;
pub mod c17;
pub mod c18;
