pub mod c01;
pub mod c08;
