//! C08 — no API call crashes the host; errors are reported and recoverable.
use crate::engine::*;
use crate::gen::*;
use crate::hist::*;
use proptest::prelude::*;
use serde::{Deserialize, Serialize};
use serde_json::{json, Value};

#[derive(Clone, Debug, Serialize, Deserialize)]
pub struct Case {
    pub start_with_rules: bool,
    pub ops: Vec<(Op, u8)>,
    pub probe: String,
    /// Some((element kind, depth)): the nesting-depth class, evaluated in a child process
    #[serde(default)]
    pub depth: Option<(String, usize)>,
}

pub struct C08;

/// replace the random prefix of generated ids so outputs can be compared across sessions
pub fn normalize_ids(s: &str, mathml: &str) -> String {
    let re = regex::Regex::new(r#" id='(M[0-9a-z]{7}-)\d+' data-id-added='true'"#).unwrap();
    let mut out = s.to_string();
    if let Some(c) = re.captures(mathml) {
        out = out.replace(&c[1], "M#-");
    }
    out
}

#[derive(Debug, PartialEq, Eq, Clone)]
pub struct ProbeResult {
    pub canon: Result<String, ()>,
    pub speech: Result<String, ()>,
    pub braille: Result<String, ()>,
    /// what the ten place markers of the new expression hold (Read0..Read9; a fresh session has none set): the
    /// part of the navigation state that is tied to an expression and must not survive a new one
    pub markers: Vec<Result<String, ()>>,
}

/// the probe: a caller that (re)starts properly after an error
pub fn run_probe(expr: &str) -> Result<ProbeResult, PanicInfo> {
    let flat = |r: Api<String>| -> Result<Result<String, ()>, PanicInfo> {
        match r {
            Ok(s) => Ok(Ok(s)),
            Err(Fail::Err(_)) => Ok(Err(())),
            Err(Fail::Panic(p)) => Err(p),
        }
    };
    if let Err(Fail::Panic(p)) = api::set_rules_dir(REPO_RULES) {
        return Err(p);
    }
    let canon_raw = flat(api::set_mathml(expr))?;
    let speech = flat(api::speech())?;
    let braille = flat(api::braille(""))?;
    let m = canon_raw.clone().unwrap_or_default();
    let mut markers = vec![];
    if canon_raw.is_ok() {
        for k in [1, 7] {
            markers.push(flat(api::nav_cmd(&format!("Read{}", k)))?.map(|s| normalize_ids(&s, &m)));
        }
    }
    Ok(ProbeResult { markers, canon: canon_raw.map(|s| normalize_ids(&s, &m)), speech: speech.map(|s| normalize_ids(&s, &m)), braille })
}

/// The reference model: a fresh session in which only the *accepted state-changing calls* (successful
/// set_rules_dir and set_preference) are replayed in their original order, then the probe.
pub fn reference_probe(accepted: &[(String, String)], expr: &str) -> Result<ProbeResult, String> {
    in_raw_session(|| {
        for (k, v) in accepted {
            let r = if k == "\u{0}set_rules_dir" { api::set_rules_dir(v) } else { api::set_pref(k, v) };
            if let Err(e) = r {
                return Err(format!("reference session rejected accepted call {}={:?}: {}", k.trim_start_matches('\u{0}'), v, e.text().chars().take(80).collect::<String>()));
            }
        }
        run_probe(expr).map_err(|p| format!("reference panicked: {}", p.signature()))
    })
}

/// input classes for which MathCAT's clean-up is known to misbehave (shared with C01/C02)
pub fn input_class(xml: &str) -> Option<&'static str> {
    let tree = parse_xml(xml).ok()?;
    if pseudo_script_only_row(&tree) {
        return Some("pseudo-script-only-row");
    }
    if !crate::props::c02::schema_valid(&tree) {
        Some("schema-invalid-input")
    } else {
        crate::props::c01::input_trigger(&tree)
    }
}

/// the signature of a panic: panics in sessions that never set the rules directory (documented precondition violated)
/// are kept apart; clean-up of degenerate / inconsistent / schema-invalid input has a long tail of panic sites with one
/// family of root causes (see C01/C02), such panics are named after the input class -- unless the panic site is itself
/// a listed finding, which keeps its own name
pub fn name_panic(p: &PanicInfo, rules_dir_set: bool, op: &Op, cur_class: Option<&'static str>) -> String {
    let mut sig = if rules_dir_set { p.signature() } else { format!("pre-rules:{}", p.signature()) };
    static KNOWN: std::sync::OnceLock<Vec<KnownFinding>> = std::sync::OnceLock::new();
    let known = KNOWN.get_or_init(load_known_findings);
    if known_match(known, "C08", &sig).is_some() {
    } else if let Op::SetMathml(x) = op {
        if let Some(c) = input_class(x) {
            sig = format!("set_mathml-panic:trigger:{}", c);
        }
    } else if let Some(c) = cur_class {
        // the stored expression came from such an input: its canonical form may already be malformed (C02)
        sig = format!("panic-on-expression:trigger:{}", c);
    }
    sig
}

impl C08 {
    fn eval_history(&self, case: &Case) -> Outcome {
        let mut classes: Vec<String> = vec![];
        let mut viols: Vec<(String, String)> = vec![];
        let mut interp = Interp::default();
        let mut transcript: Vec<String> = vec![];
        let mut saw_err_then_ok = false;
        let mut saw_err = false;
        let mut kinds = std::collections::BTreeSet::new();
        let mut cur_class: Option<&'static str> = None;
        if case.start_with_rules {
            let r = interp.run(&Op::SetRulesDir(REPO_RULES.to_string()));
            interp.accepted_prefs.push(("\u{0}set_rules_dir".to_string(), REPO_RULES.to_string()));
            transcript.push(format!("set_rules_dir -> {}", r.short()));
        }
        'outer: for (op, probe_flag) in &case.ops {
            let r = interp.run(op);
            if let (Op::SetRulesDir(d), true) = (op, r.is_ok()) {
                interp.accepted_prefs.push(("\u{0}set_rules_dir".to_string(), d.clone()));
            }
            kinds.insert(op.kind());
            transcript.push(format!("{:?} -> {}", op, r.short()).chars().take(300).collect());
            classes.push(format!("{}:{}", op.kind(), if r.is_ok() { "ok" } else if r.is_err() { "err" } else { "panic" }));
            match &r {
                OpResult::Panic(p) => {
                    // panics in sessions that never set the rules directory (documented precondition violated) are kept apart
                    let sig = name_panic(p, interp.rules_dir_set, op, cur_class);
                    viols.push((sig, format!("{} panicked: {} at {}\ntranscript:\n  {}", op.kind(), p.msg, p.loc, transcript.join("\n  "))));
                    break 'outer;
                }
                OpResult::Err(_) => saw_err = true,
                OpResult::Ok(_) => {
                    if saw_err {
                        saw_err_then_ok = true;
                    }
                }
            }
            if let (Op::SetMathml(x), true) = (op, r.is_ok()) {
                cur_class = input_class(x);
            }
            // accepted prefs must only start counting once the rules dir is set (before that MathCAT has no pref files)
            // the recovery clause is only asserted for sessions that respected the documented precondition
            // "set_rules_dir is the very first call"; the no-panic clause holds for every order
            let do_probe = case.start_with_rules && ((r.is_err() && *probe_flag < 80) || *probe_flag < 12);
            if do_probe {
                let here = match run_probe(&case.probe) {
                    Ok(h) => h,
                    Err(p) => {
                        viols.push((p.signature(), format!("recovery probe panicked after {}: {} at {}\ntranscript:\n  {}", op.kind(), p.msg, p.loc, transcript.join("\n  "))));
                        break 'outer;
                    }
                };
                classes.push("probe".into());
                match reference_probe(&interp.accepted_prefs, &case.probe) {
                    Err(why) => {
                        classes.push(format!("reference-unusable:{}", why.chars().take(40).collect::<String>()));
                    }
                    Ok(reference) => {
                        if here != reference {
                            let field = if here.canon != reference.canon {
                                "canonical-mathml"
                            } else if here.speech != reference.speech {
                                "speech"
                            } else if here.markers != reference.markers {
                                "place-markers"
                            } else {
                                "braille"
                            };
                            let sig = format!("recovery:{}:after-{}-{}", field, op.kind(), if r.is_err() { "err" } else { "ok" });
                            viols.push((sig, format!("after the history the probe differs from a fresh session with the accepted preferences replayed\nhere:      {:?}\nreference: {:?}\naccepted prefs: {:?}\ntranscript:\n  {}", here, reference, interp.accepted_prefs, transcript.join("\n  "))));
                            break 'outer;
                        }
                    }
                }
                cur_class = None;
                // the probe replaced the expression
                if let Ok(m) = api::nav_mathml() {
                    interp.old_ids = std::mem::take(&mut interp.cur_ids);
                    interp.cur_ids = ids_of_mathml(&m.0);
                }
            }
        }
        let nontrivial = saw_err_then_ok || kinds.len() >= 3;
        let mut o = Outcome::from_violations(viols, nontrivial);
        o.classes = classes;
        o
    }
}

impl Property for C08 {
    type Case = Case;
    fn id(&self) -> &'static str {
        "C08"
    }
    fn own_sessions(&self) -> bool {
        true
    }
    fn abort_is_violation(&self) -> bool {
        true
    }
    fn strategy(&self, tier: Tier) -> BoxedStrategy<Case> {
        let max_ops = if tier == Tier::Thorough { 40 } else { 25 };
        (proptest::bool::weighted(0.92), proptest::collection::vec((any_op(), any::<u8>()), 1..=max_ops), small_valid_math().prop_map(|m| m.to_xml())).prop_map(|(start_with_rules, ops, probe)| Case { start_with_rules, ops, probe, depth: None }).boxed()
    }
    fn eval(&self, case: &Case) -> Outcome {
        if let Some((k, d)) = &case.depth {
            let outcome = run_depth_child(k, *d);
            return match depth_signature(k, *d, &outcome) {
                Some(sig) => Outcome::violation(sig, format!("{} nested {} elements: {}", d, k, outcome)),
                None => Outcome::pass(true),
            };
        }
        in_raw_session(|| self.eval_history(case))
    }
    fn to_json(&self, case: &Case) -> Value {
        serde_json::to_value(case).unwrap()
    }
    fn from_json(&self, v: &Value) -> Option<Case> {
        if let Some(k) = v.get("depth_kind").and_then(|k| k.as_str()) {
            return Some(Case { start_with_rules: true, ops: vec![], probe: String::new(), depth: Some((k.to_string(), v["depth"].as_u64()? as usize)) });
        }
        serde_json::from_value(v.clone()).ok()
    }
    fn cases(&self) -> (usize, usize) {
        (5000, 120000)
    }
    fn max_shrink_iters(&self) -> usize {
        250
    }
    fn rule(&self) -> String {
        "cases = histories of 1..25 (thorough 40) calls over all 16 public entry points with valid, wrong-kind, hostile and stale arguments (MathML from G-struct / G-wild / raw strings), optionally before set_rules_dir; oracle = no panic/abort, and after every Err (and at random points) a probe expression gives the same canonical MathML (ids normalised), speech and braille as a fresh session in which only the accepted preferences were replayed; non-trivial = an Err followed by an Ok, or >= 3 distinct entry points; plus the nesting-depth class run in child processes".into()
    }
    fn assumptions(&self) -> Vec<String> {
        vec!["a watchdog expiry (hang) is reported as inconclusive, never as a violation".into(), "recovery model = the ordered list of (name,value) pairs for which set_preference returned Ok".into()]
    }
    fn death_trigger(&self, case: &Case) -> Option<String> {
        // the expression that was current when the process died
        // the parent process does not know which call was running: any expression of the history counts
        for (op, _) in &case.ops {
            if let Op::SetMathml(s) = op {
                if let Ok(tree) = parse_xml(s) {
                    if pseudo_script_only_row(&tree) {
                        return Some("pseudo-script-only-row".to_string());
                    }
                }
            }
        }
        None
    }
    fn extra_phases(&self, cfg: &RunCfg, known: &[KnownFinding], stats: &mut Stats) {
        depth_class(cfg, known, stats);
    }
}

// ------------------------------------------------------------------------------------------
// nesting depth (aborts cannot be caught in-process)

/// a row / wrapper (not the first child of its parent) all of whose children are pseudo-script operators
/// (primes, quotes, degree, ...): handle_pseudo_scripts then returns the *parent* and clean_mathml recurses forever
pub fn pseudo_script_only_row(n: &MNode) -> bool {
    const PS: &[&str] = &["\"", "'", "*", "`", "ª", "°", "²", "³", "´", "¹", "º", "‘", "’", "“", "”", "„", "‟", "′", "″", "‴", "‵", "‶", "‷", "⁗", "''", "'''"];
    let all_ps = |c: &MNode| !c.kids.is_empty() && c.kids.iter().all(|t| t.tag == "mo" && PS.contains(&t.txt().trim()));
    if n.tag == "math" && all_ps(n) {
        return true;
    }
    n.any(&|k| {
        ["mrow", "mstyle", "mpadded", "mfenced", "msqrt", "menclose", "merror", "mtd", "math", "mphantom"].contains(&k.tag.as_str())
            && k.kids.iter().skip(1).any(|c| ["mrow", "mstyle", "mpadded"].contains(&c.tag.as_str()) && !c.kids.is_empty() && c.kids.iter().all(|t| t.tag == "mo" && PS.contains(&t.txt().trim())))
    })
}

pub fn deep_expr(kind: &str, depth: usize) -> String {
    let (open, close): (String, String) = match kind {
        "mrow" => ("<mrow>".into(), "</mrow>".into()),
        "mrow2" => ("<mrow><mi>a</mi><mo>+</mo>".into(), "</mrow>".into()),
        "msqrt" => ("<msqrt>".into(), "</msqrt>".into()),
        "mfrac" => ("<mfrac>".into(), "<mn>1</mn></mfrac>".into()),
        "msup" => ("<msup>".into(), "<mn>2</mn></msup>".into()),
        "mstyle" => ("<mstyle>".into(), "</mstyle>".into()),
        "mfenced" => ("<mfenced>".into(), "</mfenced>".into()),
        "paren" => ("<mrow><mo>(</mo>".into(), "<mo>)</mo></mrow>".into()),
        _ => ("<mrow>".into(), "</mrow>".into()),
    };
    let mut s = String::from("<math>");
    for _ in 0..depth {
        s.push_str(&open);
    }
    s.push_str("<mi>x</mi>");
    for _ in 0..depth {
        s.push_str(&close);
    }
    s.push_str("</math>");
    s
}

pub const DEPTH_KINDS: &[&str] = &["mrow", "mrow2", "msqrt", "mfrac", "msup", "mstyle", "mfenced", "paren"];

/// child entry: mcv depth-child <kind> <depth>
pub fn depth_child(kind: &str, depth: usize) -> i32 {
    let expr = deep_expr(kind, depth);
    let r = in_session(REPO_RULES, || {
        let a = api::set_mathml(&expr);
        if let Err(Fail::Panic(p)) = &a {
            return format!("PANIC {}", p.signature());
        }
        if a.is_err() {
            return "ERR".to_string();
        }
        for r in [api::speech(), api::braille(""), api::overview(), api::nav_cmd("ZoomInAll")] {
            if let Err(Fail::Panic(p)) = &r {
                return format!("PANIC {}", p.signature());
            }
        }
        "OK".to_string()
    });
    println!("DEPTH-RESULT {}", r);
    0
}

pub fn run_depth_child(k: &str, d: usize) -> String {
    use std::process::{Command, Stdio};
    let exe = std::env::current_exe().unwrap();
    let mut child = Command::new(&exe).args(["depth-child", k, &d.to_string()]).stdin(Stdio::null()).stdout(Stdio::piped()).stderr(Stdio::piped()).spawn().expect("spawn");
    let t0 = std::time::Instant::now();
    loop {
        match child.try_wait() {
            Ok(Some(_)) => {
                let out = child.wait_with_output().unwrap();
                let so = String::from_utf8_lossy(&out.stdout).to_string();
                let se = String::from_utf8_lossy(&out.stderr).to_string();
                if let Some(l) = so.lines().find(|l| l.starts_with("DEPTH-RESULT ")) {
                    return l["DEPTH-RESULT ".len()..].to_string();
                } else if se.contains("overflowed its stack") {
                    return "ABORT stack overflow".to_string();
                } else {
                    return format!("ABORT {:?}", out.status);
                }
            }
            Ok(None) => {
                if t0.elapsed().as_secs() > 20 {
                    let _ = child.kill();
                    let _ = child.wait();
                    return "TIMEOUT".to_string();
                }
                std::thread::sleep(std::time::Duration::from_millis(20));
            }
            Err(_) => return "ABORT wait failed".to_string(),
        }
    }
}

pub fn depth_signature(k: &str, d: usize, outcome: &str) -> Option<String> {
    if outcome.starts_with("ABORT") {
        // the depth at which the 8 MiB stack runs out is a property of the build; classify coarsely
        Some(if d >= 1000 { "abort:stack-overflow:nesting>=1000".to_string() } else { format!("abort:stack-overflow:nesting<1000:{}", k) })
    } else {
        outcome.strip_prefix("PANIC ").map(|p| p.to_string())
    }
}

fn depth_class(cfg: &RunCfg, known: &[KnownFinding], stats: &mut Stats) {
    let depths: Vec<usize> = if cfg.tier == Tier::Quick { vec![10, 100, 400, 1500] } else { vec![10, 50, 100, 200, 400, 800, 1500, 3000, 5000, 10000, 20000] };
    let jobs: Vec<(String, usize)> = DEPTH_KINDS.iter().flat_map(|k| depths.iter().map(move |d| (k.to_string(), *d))).collect();
    let results: std::sync::Mutex<Vec<(String, usize, String)>> = std::sync::Mutex::new(vec![]);
    let next = std::sync::atomic::AtomicUsize::new(0);
    std::thread::scope(|s| {
        for _ in 0..cfg.workers.min(8) {
            s.spawn(|| loop {
                let i = next.fetch_add(1, std::sync::atomic::Ordering::SeqCst);
                if i >= jobs.len() {
                    break;
                }
                let (k, d) = &jobs[i];
                let outcome = run_depth_child(k, *d);
                results.lock().unwrap().push((k.clone(), *d, outcome));
            });
        }
    });
    let mut results = results.into_inner().unwrap();
    results.sort();
    let mut table = vec![];
    for (k, d, outcome) in &results {
        stats.evaluations += 1;
        stats.nontrivial_keys.insert(hash_str(&format!("depth:{}:{}", k, d)));
        *stats.classes.entry(format!("depth:{}", outcome.split(' ').next().unwrap_or(""))).or_default() += 1;
        table.push(json!({"kind": k, "depth": d, "outcome": outcome}));
        if let Some(sig) = depth_signature(k, *d, outcome) {
            if let Some(kf) = known_match(known, "C08", &sig) {
                *stats.known_hits.entry(kf.signature.clone()).or_default() += 1;
            } else if !stats.violations.iter().any(|v| v.sig == sig) {
                let case = json!({"depth_kind": k, "depth": d});
                let path = write_replay("C08", &sig, outcome, &case, true);
                stats.violations.push(ViolationRecord { sig, detail: format!("{} nested {} elements: {}", d, k, outcome), replay_path: path });
            }
        }
    }
    stats.extra.insert("depth_class".into(), Value::Array(table));
}
