#!/bin/bash
# confirm_seeded.sh <seeded dir name> ...   -- re-checks a seeded change in a scratch worktree of /repo:
#   the existing suite's passing set is unchanged with the patch, the demo fails with it and passes without it.
set -u
W=/tmp/mcv-confirm-$$
git -C /repo worktree add --detach "$W" HEAD >/dev/null 2>&1 || exit 3
for name in "$@"; do
  d=/verif/seeded/$name
  echo "=== $name"
  ( cd "$W" && git checkout -q -- . && git apply "$d/patch.diff" ) || { echo "patch does not apply"; continue; }
  MCV_REPO="$W" /verif/tools/baseline.sh | sed 's/^/  suite with patch: /'
  sed "s#/tmp/seed/C[0-9]*b\?#$W#g" "$d/demo.rs" > "$W/tests/seed_demo.rs"   # demos that hard-code their original worktree
  ( cd "$W" && cargo test --offline --test seed_demo 2>&1 | grep -E "^test result" | sed 's/^/  demo with patch:    /' )
  ( cd "$W" && git checkout -q -- . && cargo test --offline --test seed_demo 2>&1 | grep -E "^test result" | sed 's/^/  demo without patch: /' )
  rm -f "$W/tests/seed_demo.rs"
done
git -C /repo worktree remove --force "$W"; git -C /repo worktree prune
