#!/bin/bash
# Runs the repository's own test suite with the verification guard OFF and compares the set of
# passing tests with /root/.vp/BASELINE.json (stable_pass).  Exit 0 iff every baseline test passes.
set -u
cd "${MCV_REPO:-/repo}" || exit 3
export CARGO_NET_OFFLINE=true
unset RUSTFLAGS
LOG=$(mktemp /tmp/mcv-baseline.XXXXXX)
cargo test --workspace --no-fail-fast --offline >"$LOG" 2>&1
python3 - "$LOG" <<'PY'
import json, re, sys
log = open(sys.argv[1], errors="replace").read()
base = set(json.load(open("/root/.vp/BASELINE.json"))["stable_pass"])
passed = set()
binary = None
for line in log.splitlines():
    m = re.match(r"\s*Running (\S+) \(", line)
    if m:
        p = m.group(1)
        if p.startswith("unittests"):
            binary = "mathcat"
        else:
            binary = "mathcat::" + p.split("/")[-1].rsplit(".", 1)[0]
        continue
    m = re.match(r"\s*Running unittests (\S+)", line)
    if m:
        binary = "mathcat" if "lib.rs" in m.group(1) else "mathcat::bin"
        continue
    m = re.match(r"test (\S+) \.\.\. ok", line)
    if m and binary:
        passed.add(binary + "::" + m.group(1))
missing = sorted(base - passed)
print(f"baseline tests: {len(base)}  passing now: {len(passed & base)}  missing: {len(missing)}  (other passing: {len(passed - base)})")
for n in missing[:40]:
    print("  NOT PASSING:", n)
sys.exit(0 if not missing else 1)
PY
rc=$?
rm -f "$LOG"
exit $rc
