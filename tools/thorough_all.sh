#!/bin/bash
# thorough_all.sh [ids...] -- runs the thorough tier of every check once (default seed), one summary line each
cd "$(dirname "$0")/.." || exit 3
ids="${*:-C18 C03 C01 C02 C09 C11 C13 C16 C17 C19 C20 C12 C14 C15 C06 C07 C04 C10 C05 C08}"
for p in $ids; do
  start=$(date +%s)
  out=$(./check "$p" thorough 2>&1); rc=$?
  echo "$p thorough exit=$rc $(( $(date +%s) - start ))s $(echo "$out" | grep "^$p thorough" | tail -1 | cut -c1-160)"
  if [ $rc -ne 0 ]; then echo "$out" | grep -A8 "^VIOLATION\|^note:" | cut -c1-700 | head -60; fi
done
