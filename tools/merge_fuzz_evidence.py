#!/usr/bin/env python3
"""merge_fuzz_evidence.py <ID> <target> <state> <execs> <new_units> <artifacts> <secs> <seed>
Adds what the coverage-guided phase of ./check <ID> thorough did to evidence/<ID>.json (coverage.fuzz)."""
import json, os, sys
root = os.path.join(os.path.dirname(os.path.abspath(__file__)), "..")
pid, target, state, execs, added, arts, secs, seed = sys.argv[1:9]
p = os.path.join(root, "evidence", pid + ".json")
e = json.load(open(p))
work = os.path.join(root, "harness", "target", "fuzz-work", target, "corpus")
samples = []
try:
    for f in sorted(os.listdir(work))[-3:]:
        samples.append(open(os.path.join(work, f), "rb").read()[:300].decode("utf-8", "replace"))
except OSError:
    pass
e["coverage"]["fuzz"] = {
    "engine": "libFuzzer (cargo +nightly fuzz, ASan, debug assertions on)", "target": target, "state": state,
    "executions": int(execs), "new_corpus_units": int(added), "artifacts": int(arts), "max_total_time_s": int(secs), "seed": int(seed),
    "oracle": "the same Property::eval as the generated part; violations listed in known_findings.json are tolerated in-target",
    "start_corpus": "harvested from /repo/tests at run time (mcv fuzz-corpus); fresh corpus directory per run",
    "corpus_samples": samples,
}
if state == "violation":
    e["violations"] = int(e.get("violations", 0)) + 1
json.dump(e, open(p, "w"), indent=1, ensure_ascii=False)
