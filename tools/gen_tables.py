#!/usr/bin/env python3
"""Reference tables that are independent of MathCAT (DESIGN.md C01/C17/C18).

Sources: Python's unicodedata (Unicode Character Database) and html.entities.html5.
Output: /verif/harness/data/{mathalnum_nfkc,mathvariant_expected,html5_entities}.json
The output is committed; this script is only re-run to regenerate it (python3, no network).
"""
import json, os, sys, unicodedata
import html.entities

OUT = os.path.join(os.path.dirname(os.path.abspath(__file__)), "..", "harness", "data")
os.makedirs(OUT, exist_ok=True)

# ---------------------------------------------------------------- 1. styled letter -> base letter
nfkc = {}
for cp in list(range(0x1D400, 0x1D800)) + list(range(0x2100, 0x2150)):
    ch = chr(cp)
    if unicodedata.category(ch) == "Cn":
        continue
    name = unicodedata.name(ch, "")
    d = unicodedata.normalize("NFKC", ch)
    if cp >= 0x1D400 or any(k in name for k in ("SCRIPT", "DOUBLE-STRUCK", "BLACK-LETTER", "PLANCK CONSTANT")):
        if d != ch and len(d) == 1:
            nfkc[ch] = d
json.dump({"unicode_version": unicodedata.unidata_version, "map": nfkc}, open(os.path.join(OUT, "mathalnum_nfkc.json"), "w"), ensure_ascii=False, indent=0, sort_keys=True)

# ---------------------------------------------------------------- 2. mathvariant expected table
# style name in MathML -> words used in UCD names
STYLES = {
    "bold": "BOLD",
    "italic": "ITALIC",
    "bold-italic": "BOLD ITALIC",
    "double-struck": "DOUBLE-STRUCK",
    "bold-fraktur": "BOLD FRAKTUR",
    "script": "SCRIPT",
    "bold-script": "BOLD SCRIPT",
    "fraktur": "FRAKTUR",
    "sans-serif": "SANS-SERIF",
    "bold-sans-serif": "SANS-SERIF BOLD",
    "sans-serif-italic": "SANS-SERIF ITALIC",
    "sans-serif-bold-italic": "SANS-SERIF BOLD ITALIC",
    "monospace": "MONOSPACE",
}
LETTERLIKE = {  # the "holes": characters that predate the Mathematical Alphanumeric Symbols block
    ("ITALIC", "h"): "PLANCK CONSTANT",
    ("SCRIPT", "B"): "SCRIPT CAPITAL B", ("SCRIPT", "E"): "SCRIPT CAPITAL E", ("SCRIPT", "F"): "SCRIPT CAPITAL F",
    ("SCRIPT", "H"): "SCRIPT CAPITAL H", ("SCRIPT", "I"): "SCRIPT CAPITAL I", ("SCRIPT", "L"): "SCRIPT CAPITAL L",
    ("SCRIPT", "M"): "SCRIPT CAPITAL M", ("SCRIPT", "R"): "SCRIPT CAPITAL R",
    ("SCRIPT", "e"): "SCRIPT SMALL E", ("SCRIPT", "g"): "SCRIPT SMALL G", ("SCRIPT", "o"): "SCRIPT SMALL O",
    ("FRAKTUR", "C"): "BLACK-LETTER CAPITAL C", ("FRAKTUR", "H"): "BLACK-LETTER CAPITAL H",
    ("FRAKTUR", "I"): "BLACK-LETTER CAPITAL I", ("FRAKTUR", "R"): "BLACK-LETTER CAPITAL R",
    ("FRAKTUR", "Z"): "BLACK-LETTER CAPITAL Z",
    ("DOUBLE-STRUCK", "C"): "DOUBLE-STRUCK CAPITAL C", ("DOUBLE-STRUCK", "H"): "DOUBLE-STRUCK CAPITAL H",
    ("DOUBLE-STRUCK", "N"): "DOUBLE-STRUCK CAPITAL N", ("DOUBLE-STRUCK", "P"): "DOUBLE-STRUCK CAPITAL P",
    ("DOUBLE-STRUCK", "Q"): "DOUBLE-STRUCK CAPITAL Q", ("DOUBLE-STRUCK", "R"): "DOUBLE-STRUCK CAPITAL R",
    ("DOUBLE-STRUCK", "Z"): "DOUBLE-STRUCK CAPITAL Z",
}
DIGITS = ["ZERO", "ONE", "TWO", "THREE", "FOUR", "FIVE", "SIX", "SEVEN", "EIGHT", "NINE"]

def lookup(name):
    try:
        return unicodedata.lookup(name)
    except KeyError:
        return None

def greek_base_names():
    """base greek char -> the suffix used in MATHEMATICAL names"""
    out = {}
    for cp in list(range(0x391, 0x3AA)) + list(range(0x3B1, 0x3CA)):
        ch = chr(cp)
        if unicodedata.category(ch) == "Cn":
            continue
        n = unicodedata.name(ch)  # GREEK CAPITAL LETTER ALPHA / GREEK SMALL LETTER FINAL SIGMA
        n = n.replace("GREEK ", "").replace("LETTER ", "")
        out[ch] = n  # "CAPITAL ALPHA", "SMALL FINAL SIGMA"
    out["ϴ"] = "CAPITAL THETA SYMBOL"
    out["∇"] = "NABLA"
    out["∂"] = "PARTIAL DIFFERENTIAL"
    out["ϵ"] = "EPSILON SYMBOL"
    out["ϑ"] = "THETA SYMBOL"
    out["ϰ"] = "KAPPA SYMBOL"
    out["ϕ"] = "PHI SYMBOL"
    out["ϱ"] = "RHO SYMBOL"
    out["ϖ"] = "PI SYMBOL"
    out["Ϝ"] = "CAPITAL DIGAMMA"
    out["ϝ"] = "SMALL DIGAMMA"
    return out

GREEK = greek_base_names()
table = {}
for mv, words in STYLES.items():
    m = {}
    for c in "ABCDEFGHIJKLMNOPQRSTUVWXYZabcdefghijklmnopqrstuvwxyz":
        kind = "CAPITAL" if c.isupper() else "SMALL"
        ch = lookup(f"MATHEMATICAL {words} {kind} {c.upper()}")
        if ch is None and (words, c) in LETTERLIKE:
            ch = lookup(LETTERLIKE[(words, c)])
        m[c] = ch  # None: Unicode has no such character
    for i, d in enumerate(DIGITS):
        m[str(i)] = lookup(f"MATHEMATICAL {words} DIGIT {d}")
    for g, suffix in GREEK.items():
        m[g] = lookup(f"MATHEMATICAL {words} {suffix}")
    table[mv] = m
assigned = [cp for cp in list(range(0x1D400, 0x1D800)) + list(range(0x2100, 0x2150)) if unicodedata.category(chr(cp)) != "Cn"]
json.dump({"unicode_version": unicodedata.unidata_version, "styles": table, "assigned_in_math_blocks": assigned,
           "greek_keys": sorted(GREEK.keys())},
          open(os.path.join(OUT, "mathvariant_expected.json"), "w"), ensure_ascii=False, indent=0, sort_keys=True)

# ---------------------------------------------------------------- 3. HTML5 named character references
ents = {k[:-1]: v for k, v in html.entities.html5.items() if k.endswith(";")}
json.dump({"source": "python html.entities.html5", "python": sys.version.split()[0], "entities": ents},
          open(os.path.join(OUT, "html5_entities.json"), "w"), ensure_ascii=False, indent=0, sort_keys=True)
print("wrote tables:", len(nfkc), "styled letters;", sum(1 for s in table.values() for v in s.values() if v), "mathvariant pairs;", len(ents), "entities; UCD", unicodedata.unidata_version)
