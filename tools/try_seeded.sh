#!/bin/bash
# try_seeded.sh <seeded dir name> <ID> [<ID>...]  -- applies the seeded change to /repo, runs the quick checks, reverts.
set -u
name="$1"; shift
cd /verif
git -C /repo diff --quiet || { echo "/repo is not clean"; exit 3; }
git -C /repo apply "/verif/seeded/$name/patch.diff" || exit 3
trap 'git -C /repo checkout -- . ' EXIT
for id in "$@"; do
  echo "=== $name : ./check $id quick (seed ${VERIF_SEED:-default})"
  cp evidence/$id.json /tmp/evidence-$id.bak 2>/dev/null
  ./check "$id" quick > /tmp/try-$name-$id.log 2>&1; rc=$?
  cp /tmp/evidence-$id.bak evidence/$id.json 2>/dev/null
  echo "exit=$rc"; grep -E "^VIOLATION|signature" /tmp/try-$name-$id.log | head -8
done
