#!/usr/bin/env python3
"""Writes /verif/MANIFEST.json from the table below (kept in one place so it stays consistent)."""
import json, os, subprocess

ROOT = os.path.join(os.path.dirname(os.path.abspath(__file__)), "..")
ALL = ["C%02d" % i for i in range(1, 21)]

# id -> (technique, level text, level note, design section)
CHECKS = {
    "C01": ("property-based testing (proptest generators + shrinking), round-trip oracle on the normalised visible leaf string",
            "Generated search: arbitrary arity-correct presentation MathML (incl. degenerate children, wrappers, mfenced, mmultiscripts, tables) x separator locales; the visible character sequence of the input must equal that of the MathML returned by set_mathml after a character-only normalisation. Finds silent loss/invention of content; no claim beyond the generator bounds.",
            "Trusts sxd-document as XML parser, the NFKC table from Python's unicodedata for styled letters, and the normalisation N of DESIGN.md C01. Known findings are excluded by input-trigger signature and counted.",
            "DESIGN.md 3/C01"),
    "C02": ("property-based testing (proptest generators + shrinking) plus a coverage-guided libFuzzer target (fz_c02, thorough tier) with the same oracle: validity predicate over the returned MathML parsed by an independent XML parser",
            "Generated search over accepted inputs (G-struct with planted special-character attributes, G-wild mutants, raw strings) and over get_navigation_mathml after random moves; the returned string must parse and satisfy the canonical-form predicate of the statement (arities, paired multiscripts, no empty token, no short mrow without intent, wrappers gone, attribute escaping).",
            "Trusts sxd-document as the independent parser. Known findings are excluded by input-trigger signature (shared with C01) and counted.",
            "DESIGN.md 3/C02"),
    "C08": ("property-based testing over API call histories (stateful, model-based: fresh-session reference model), process isolation for aborts; plus a coverage-guided libFuzzer target (fz_c08, thorough tier) for the no-panic clause on arbitrary input strings",
            "Generated histories over all 16 public entry points with valid, wrong-kind, hostile and stale arguments in any order; every call must return (panic hook + catch_unwind; aborts and hangs observed through worker processes), and after errors a probe expression must give exactly the outputs of a fresh session in which the accepted state-changing calls were replayed. A separate nesting-depth class runs in child processes.",
            "Recovery is asserted only for sessions that began with a successful set_rules_dir (documented precondition); panics are reported for every order. Debug assertions and overflow checks are on. Hangs are counted, not reported as violations unless they fall in a known input class.",
            "DESIGN.md 3/C08"),
    "C18": ("exhaustive enumeration of the finite mapping table plus property-based testing of multi-character tokens, differential against a reference table built from Unicode Character Database names",
            "Every mathvariant value x every key of the mapping x mi/mn/mo/mtext is enumerated (exhaustive) and compared with the character Unicode names MATHEMATICAL <STYLE> <LETTER> (incl. the Letterlike-Symbols holes) or the documented fall-back; generated multi-character tokens extend this; unassigned code points and per-style injectivity are checked.",
            "Trusts Python's unicodedata (UCD 14) from which harness/data/mathvariant_expected.json was generated, and the encoding of the documented fall-backs in c18.rs::allowed.",
            "DESIGN.md 3/C18"),
    "C17": ("metamorphic property-based testing (surface re-spellings of one expression must give identical outputs) plus an exhaustive differential sweep of the entity table against Python's html.entities.html5",
            "Generated: a base expression (token text may contain runs of XML white space) is re-spelled by 1-5 surface operators (character references incl. references to white space, namespace prefix/default xmlns, white space, comments, PIs, MathJax class attributes, attribute quoting, token-edge space) and canonical MathML, speech and braille must be identical; exhaustive: each of the 2125 names of src/entities.in must expand like the numeric references of the HTML5 expansion; names in neither table must be rejected by name.",
            "Trusts Python's html.entities.html5 as the entity reference; HTML5 names MathCAT does not know may be rejected (allowed by the statement).",
            "DESIGN.md 3/C17"),
    "C16": ("differential property-based testing: every generated split spelling of a locale number against its single-token spelling",
            "Generated numbers of the locale grammar (US / continental / Swiss / space groups set through the separator pair, and separators chosen through Language x DecimalSeparator in both call orders), all cut patterns at the separators (own mo / own mtext / glued left / glued right / uncut) in ten contexts; canonical tree, speech and braille of the split spelling must equal those of the single mn; negative cases (two decimal marks, short group after a comma, operator in between, comma lists in fences) must not fold.",
            "Excluded by construction, with the reason recorded in evidence.reject_reasons: leading/trailing commas and trailing decimal marks in their own token (documented as never folded because they cannot be told from punctuation) and a final period where '.' is a separator of the locale.",
            "DESIGN.md 3/C16"),
    "C03": ("property-based testing with a grammar generator over the operator dictionary: validity predicate on every row plus differential against a reference precedence-climbing parser",
            "Generated well-formed operator/operand sequences over the single-form dictionary operators (and the + - x families), nested fences, author mrows and embellished infix operators (munder / mover / msub around an operator), the factorial as postfix operator, placed at top level or inside 2-D constructs; oracle A checks every mrow (one priority class or one n-ary family, operand rows bind at least as tightly, no adjacent operands); oracle B requires the bracketing (and the places of implied operators) to equal a reference parse computed from operator-info.in priorities, skipped on priority ties between different operators (the dictionary does not define associativity).",
            "operator-info.in is the specification (a changed priority is a changed specification). Chemistry heuristics are switched off (preference Chemistry=Off); atoms avoid function-name and number-merging heuristics.",
            "DESIGN.md 3/C03"),
    "C04": ("metamorphic property-based testing: distinct decimal literals planted at every operand position of generated textbook expressions must re-occur in the speech",
            "Generated textbook-grammar expressions with a distinct decimal literal at every operand position x 8 languages x 2 styles x 3 verbosities, plus an enumerated sweep of all 48 configurations over fixed shapes; each literal must occur in get_spoken_text at least as often as in the expression (as a maximal digit/mark run, written with the session's decimal mark); the overview may omit but not alter numbers.",
            "Only numbers are asserted (identifier wording is language specific). Decimal literals are never turned into words by the rules. Known rule-file and post-processing losses are keyed by structural class x language.",
            "DESIGN.md 3/C04"),
    "C05": ("property-based testing with table-stratified character generators; invariant on the output alphabet of speech, overview and navigation speech",
            "Generated expressions whose token characters come from the language's short table, its full-only table, no table at all, and plain tokens (author ids -- plain, empty, blank, repeated -- on some elements) x every language x style x verbosity x capital-letter/override/impairment/overview preferences (TTS none); get_spoken_text, get_overview_text and navigation speech must contain no private-use marker, no raw invisible operator, no [[ ]] and no markup, and be non-empty when the expression has letters or digits.",
            "Private-use characters, [[ ]] and tag-shaped text are not planted (unknown characters and mtext are echoed by design).",
            "DESIGN.md 3/C05"),
    "C06": ("metamorphic property-based testing: planted literals must re-occur as runs of the published digit cells (decimal mark calibrated in-session)",
            "Generated textbook expressions (incl. mixed numbers: a whole part directly followed by a fraction) with distinct integer/decimal literals at every operand position x braille code x code preferences; text codes must contain the literal verbatim, cell codes a contiguous run of the published digit cells (Nemeth lower cells, upper cells elsewhere, lowered cells where a code drops digits) with the decimal-mark cells calibrated by brailling 12.34 alone in the same session.",
            "Digit cells are hard-coded from the published codes, not read from the rule files. Known rule-file losses are keyed by code x structural class.",
            "DESIGN.md 3/C06"),
    "C07": ("property-based testing with generators restricted to the characters and elements each code covers; invariant on the output alphabet of braille",
            "Generated expressions over the keys of the selected code's unicode tables (plus ASCII alphanumerics, typeface variants, capitals, Greek, chemistry, tables, text) x every braille code x highlight style x code preferences, brailled with no id / an id of the expression / a foreign id (again after navigation moves and cursor-routing queries) and through get_navigation_braille; cell codes must consist of U+2800-28FF only and carry no dots 7-8 unless a node of the expression is highlighted; text codes must be free of private-use characters, internal indicator letters and control characters; non-empty when the expression has letters or digits.",
            "U+28CD is accepted as the documented table row separator. Characters outside the code's tables are not generated (passed through by design); merror is excluded (no braille rule).",
            "DESIGN.md 3/C07"),
    "C12": ("model-based property testing over histories of set_preference calls (reference model: map name -> normalised value) plus an exhaustive sweep of the preference table",
            "Generated histories of set_preference calls with valid, wrong-kind, empty, mis-cased and hostile values on known, near-miss and unknown names, in fresh sessions; accepted values must read back normalised now and later; unknown names / wrong kinds must be rejected and leave every preference and every output unchanged; a coarse scope table is checked metamorphically; the name x value-kind sweep and the braille-code x code-preference scope sweep are enumerated exhaustively.",
            "The preference table (names, kinds, sample values) is hard-coded in hist.rs from Rules/prefs.yaml and the API defaults. Global preferences (Language, separators, Chemistry, CheckRuleFiles) are exempt from the scope table.",
            "DESIGN.md 3/C12"),
    "C13": ("property-based testing with a hand-written tag scanner (validity predicate) and a differential oracle against TTS=None",
            "Generated textbook expressions x engine {SSML, SAPI5} x language, style, verbosity and all prosody / capital-letter / bookmark preferences; the engine string must scan (attribute syntax), use only the engine's tag vocabulary, nest and close properly, carry only marks that name ids of the expression (none without Bookmark), and after removing tags spell the same words as the TTS=None speech.",
            "Word boundaries around concatenated pieces are not asserted (comparison on characters with white space and pause punctuation removed).",
            "DESIGN.md 3/C13"),
    "C19": ("property-based testing with a grammar generator, single-edit mutation and arbitrary strings, plus a coverage-guided libFuzzer target (fz_c19, thorough tier) with the same oracle; reference recogniser + differential against the attribute-removed expression",
            "Generated intent strings (grammatical, mutants, arbitrary Unicode, honoured form) on 12 kinds of host element (incl. rows whose other children have no content) x both recovery settings; never a panic; under IgnoreIntent speech succeeds and, for strings a reference recogniser proves illegal, equals the speech without the attribute; under Error illegal strings yield Err; name(args) with a made-up name mentions the name and every referenced literal; speech is repeatable and the intent attributes are still on the stored expression afterwards.",
            "Intents naming concepts MathCAT knows (plus, power, ...) are only checked for panics when grammatical (wrong arity makes the concept's own rule fail, which the statement does not cover).",
            "DESIGN.md 3/C19"),
    "C10": ("model-based property testing over API histories: every observed output is compared with a fresh-session reference model",
            "Generated histories (preference changes over 24 preferences (incl. the computed separator pair), other expressions -- operands include words of every definitions.yaml, whole or spelled letter by letter --, getters, navigation, cursor routing, and 'visits' of the configuration such a word belongs to) followed by a target assignment of all those preferences in generated order, the probe expression, getters in generated order and multiplicity and away-and-back toggles; each output must be byte-identical (ids normalised) to a fresh session that establishes the same assignment, sets the expression and calls that getter once; a share of cases runs beside independent sessions in other threads.",
            "Thread interleavings are sampled, not explored (all state is thread-local). Outputs are only observed while the target assignment is in force (documented: an expression is canonicalised with the preferences current at set_mathml time).",
            "DESIGN.md 3/C10"),
    "C20": ("property-based testing with per-expression exhaustive probing (every node id, every cell index) and a purity snapshot oracle",
            "Generated textbook expressions (incl. Roman numerals and digit groups) x every braille code x highlight style, after random navigation moves; the overview text and the braille of another code are read before the first braille call and again at the end; every node id (and a foreign id) is highlighted, the braille position is read and every cell index (plus huge positions) is routed; results must succeed for own ids / inside positions, stay within the braille, name ids of the expression, equal the plain braille when highlighting is off or the id is foreign, and leave the highlight preference, navigation position, speech and plain braille unchanged.",
            "Clause 'highlighting only adds dots' is a known finding for all cell codes (clean-up passes do not recognise highlighted cells) and is keyed per code.",
            "DESIGN.md 3/C20"),
    "C11": ("stateful property-based testing of navigation histories: invariants after every step plus a fresh-session suffix model",
            "Generated histories of navigation commands (all 74 names), key presses, set_navigation_node and changes of expression x NavMode x Overview x AutoZoomOut x NavVerbosity in fresh sessions; after every step the navigation id is an id of the current expression and its MathML can be retrieved; the position is the root after set_mathml; read-only commands do not move; MoveToK returns to SetPlacemarkerK; MoveLastLocation undoes the last move; the positions reached since the last set_mathml equal (as tree paths) those of the same commands in a fresh session.",
            "The optional stack-balance hook was not needed: everything is observed through the public API. The suffix model is skipped when modes were toggled before the last set_mathml (NavMode persists by design).",
            "DESIGN.md 3/C11"),
    "C09": ("property-based testing: generated expressions with planted author ids (none/some/all/duplicated/hostile characters) and follow-up speech, navigation and cursor-routing calls; invariants over the returned MathML and every id handed out later",
            "Generated G-struct / textbook expressions (followed by up to 7 navigation steps: any command incl. place markers and jumps, or set_navigation_node with a character offset) with author ids on no, some or all elements (plain, with spaces, looking like generated ids, with XML special characters, 8% with a duplicated id); every element of the returned MathML has an id, ids are distinct, an author id on a token stays on an element showing that token's text and a uniquely identifiable token keeps its id, an author id on a 2-D element stays on an element of that kind; every id in bookmark marks (SSML/SAPI5), get_navigation_mathml_id after moves and get_navigation_node_from_braille_position is an id of the returned MathML.",
            "Id migration is not judged when the author's ids are themselves ambiguous (duplicates): only distinctness is. Content inside annotation elements and mphantom is not displayed and is not tracked.",
            "DESIGN.md 3/C09"),
    "C14": ("fault injection on a private copy of the rules directory: exhaustive enumeration (every reachable file of the default configuration x 8 basic fault kinds x before/after first load) plus property-based generation of (configuration, file, fault, timing, CheckRuleFiles mode, repair mode) sequences; reference = fresh session on the pristine rules",
            "Enumerated and generated fault sequences on a private copy of Rules/ (deleted, empty, truncated at a byte or at an entry, wrong top-level type, invalid xpath, unknown key, wrong-type value or entry, invalid UTF-8, directory in place of the file, missing rules directory): no call panics; the first error a caller gets for a failing load names the faulted file; after the repair (four modes, one of them the original file with its original, older time stamp; bytes restored with a newer time stamp and CheckRuleFiles=All, or set_rules_dir to the pristine or the same directory) set_mathml, speech, overview, braille, two navigation moves and navigation braille equal a fresh session on the pristine rules.",
            "Level fault_enumeration for the enumerated part (reported separately in the evidence: stream 'explicit'); the rest is exploration. Match-time failures (a rule or variable missing from a well-formed but shortened or fall-back file) and 'MathML has not been set' after a failed set_mathml are not load errors and need not name the file. Time stamps are set explicitly and strictly increasing. A fault that stays invisible is a trivial case.",
            "DESIGN.md 3/C14"),
    "C15": ("exhaustive enumeration of the shipped configurations (languages/regions x styles x verbosities, braille codes, fall-back configurations) crossed with a corpus harvested from the repository's tests plus property-based generation of textbook expressions; differential against an English reference session and against the base language for fall-backs",
            "Every language/region x speech style x verbosity and every braille code found under Rules/ at run time (one generated case in three selects and uses another configuration first; a regional variant must then speak like a session that only ever had it), plus unknown-region and unknown-language configurations, is selected and run over a seed-selected spread of the 1715 <math> literals of the repository's tests (all of them in the thorough tier) and over generated expressions: selecting the configuration, set_mathml, speech, overview, braille, a navigation walk and navigation braille must all succeed, speech must be non-empty for expressions with letters or digits, and a fall-back configuration must give exactly the outputs of its base language.",
            "Enumeration of configurations is exhaustive, the corpus is a sample. Errors are keyed by (language or code, error class); a class English shows on the same expression (or on the canonical form the configuration produced) is keyed any-configuration; the two classes raised by the navigation engine for nodes without speech of their own are keyed navigation-engine for all languages (known findings). Fall-back equality is not asserted on numbers with separators (separators are chosen from the language code by design).",
            "DESIGN.md 3/C15"),
}

NOT_YET = "check not built yet in this round (machinery in progress; see DESIGN.md section 7 build order)"

def main():
    checks = []
    for pid in ALL:
        if pid not in CHECKS:
            continue
        tech, text, note, ref = CHECKS[pid]
        checks.append({
            "property_id": pid,
            "quick_cmd": f"./check {pid} quick",
            "thorough_cmd": f"./check {pid} thorough",
            "evidence_file": f"/verif/evidence/{pid}.json",
            "replay_cmd_template": f"./check replay {pid} {{path}}",
            "engine": "mcv",
            "level_claimed": {"category": "fault_enumeration" if pid == "C14" else "exploration", "text": text, "design_ref": ref},
            "level_note": note,
            "technique": tech,
        })
    hooks_commits = []
    try:
        out = subprocess.run(["git", "-C", "/repo", "log", "--format=%H %s"], capture_output=True, text=True).stdout
        for line in out.splitlines():
            sha, _, subj = line.partition(" ")
            if subj.startswith("verif-hook:"):
                hooks_commits.append(sha)
    except Exception:
        pass
    m = {
        "version": 1,
        "setup_cmd": "./check build",
        "hooks": {
            "guard": "mathcat_verif",
            "enable": "RUSTFLAGS=--cfg mathcat_verif via /verif/harness/.cargo/config.toml and /verif/fuzz/.cargo/config.toml (rustc cfg, not a cargo feature; Cargo.toml of /repo untouched). One hook: a thread-local counter in src/speech.rs (VERIF_REPETITIVE_PREFIX_DROPPED) that C04 reads to name a listed finding by its root cause; observation only",
            "baseline_off_cmd": "/verif/tools/baseline.sh",
            "source_commits": hooks_commits,
            "add_only": True,
        },
        "engines": [
            {"name": "libfuzzer-targets", "path": "/verif/fuzz", "serves_properties": ["C02", "C08", "C19"],
             "kind_free_text": "cargo-fuzz crate (nightly, libFuzzer, ASan): fz_c02 / fz_c08 / fz_c19 decode bytes into a case and evaluate it with the same Property::eval as mcv; run by ./check <ID> thorough after the generated part; saved crash inputs are replayed by both tiers with the stable build"},
            {"name": "mcv", "path": "/verif/harness", "serves_properties": sorted(CHECKS.keys()),
             "kind_free_text": "Rust binary linking MathCAT from /repo (path dependency): proptest strategies generate cases as a pure function of (VERIF_SEED, property, index); ranges of cases run in worker processes (an abort or hang costs one case); explicit oracles per property; violations are confirmed in a fresh session, shrunk with proptest's value trees and written as replay files; known findings are matched by signature"},
        ],
        "checks": checks,
        "not_applicable": [{"property_id": p, "reason": NOT_YET} for p in ALL if p not in CHECKS],
        "notes": "exit codes: 0 held, 1 violation (VIOLATION line), 2 inconclusive (watchdog / fuzzer crash that is not an oracle violation), 3 build/usage error. VERIF_SEED selects the PRNG stream; VERIF_SCALE scales case counts (smoke runs only); VERIF_FUZZ_SECS (default 300, 0 = off) is the budget of the libFuzzer phase of the thorough tier of C02/C08/C19 (needs cargo +nightly fuzz; skipped with a note if that build fails).",
    }
    json.dump(m, open(os.path.join(ROOT, "MANIFEST.json"), "w"), indent=1)
    print("MANIFEST.json:", len(checks), "checks,", len(m["not_applicable"]), "not_applicable")

if __name__ == "__main__":
    main()
