#!/usr/bin/env python3
"""Regenerates the Findings appendix of DESIGN.md (between the BEGIN/END FINDINGS markers) from known_findings.json
and the seeded-change table (between BEGIN/END SEEDED) from seeded/*/meta.json."""
import json, os, re, glob
ROOT = os.path.join(os.path.dirname(os.path.abspath(__file__)), "..")
kf = json.load(open(os.path.join(ROOT, "known_findings.json")))["findings"]
def esc(s): return s.replace("|", "\\|").replace("\n", " ")
out = []
out.append("#### Repaired in /repo (`fix:` commits; each entry has a replay that failed before the commit and passes now)\n")
out.append("| property | commit | what failed | replay |\n|---|---|---|---|")
for f in kf:
    if f["status"] == "fixed":
        what = re.sub(r"^fixed: property=\S+ \S+ ", "", f["what"])
        out.append(f"| {f['property']} | {f.get('commit','')} | {esc(what)} | `{f.get('replay','')}` |")
out.append("\n#### Known findings (genuine, not repaired; printed as KNOWN-FINDING, matched by signature)\n")
out.append("| property | signature | what fails | replay |\n|---|---|---|---|")
for f in kf:
    if f["status"] == "known":
        out.append(f"| {f['property']} | `{esc(f['signature'])}` | {esc(f['what'])} | `{f.get('replay') or '(class seen in generated runs; no minimal replay kept)'}` |")
findings = "\n".join(out) + "\n"
rows = ["| seeded change | property | what it needs | detected by | first run |", "|---|---|---|---|---|"]
for d in sorted(glob.glob(os.path.join(ROOT, "seeded", "*", "meta.json"))):
    m = json.load(open(d)); name = os.path.basename(os.path.dirname(d))
    det = m.get("detection", "")
    first = "missed, check strengthened" if det.startswith("missed") else "detected"
    rows.append(f"| `{name}` | {m.get('property','')} | {esc(m.get('what_it_needs_to_manifest','')[:260])}{'…' if len(m.get('what_it_needs_to_manifest',''))>260 else ''} | {esc(det[:420])}{'…' if len(det)>420 else ''} | {first} |")
seeded = "\n".join(rows) + "\n"
p = os.path.join(ROOT, "DESIGN.md")
s = open(p).read()
s = re.sub(r"(<!-- BEGIN FINDINGS -->\n).*?(<!-- END FINDINGS -->)", lambda m: m.group(1) + findings + m.group(2), s, flags=re.S)
s = re.sub(r"(<!-- BEGIN SEEDED -->\n).*?(<!-- END SEEDED -->)", lambda m: m.group(1) + seeded + m.group(2), s, flags=re.S)
open(p, "w").write(s)
print("DESIGN.md appendix regenerated:", sum(1 for f in kf if f['status']=='fixed'), "fixed,", sum(1 for f in kf if f['status']=='known'), "known,", len(rows)-2, "seeded")
