#!/usr/bin/env python3
"""Replays every entry of known_findings.json and reports whether its signature still reproduces.
  --prune : drop 'known' entries whose replay now yields a different signature that is itself listed."""
import json, re, subprocess, sys
kf = json.load(open("/verif/known_findings.json"))
listed = {(f["property"], f["signature"]) for f in kf["findings"] if f["status"] == "known"}
keep = []
for f in kf["findings"]:
    if not f.get("replay"):
        print("no replay  ", f["property"], f["status"], f["signature"][:70]); keep.append(f); continue
    out = subprocess.run(["/verif/harness/target/release/mcv", "replay", f["property"], "/verif/" + f["replay"]], capture_output=True, text=True, timeout=300).stdout
    sigs = re.findall(r"signature: (.*)", out)
    status = "REPRODUCES" if f["signature"] in sigs else ("silent" if not sigs else "OTHER:" + sigs[0][:60])
    print(f"{status:12}", f["property"], f["status"], f["signature"][:70])
    if "--prune" in sys.argv and f["status"] == "known" and sigs and f["signature"] not in sigs and all((f["property"], s) in listed for s in sigs):
        print("   -> pruned (now covered by", sigs[0], ")")
        subprocess.run(["git", "-C", "/verif", "rm", "-q", "-f", f["replay"]])
        continue
    keep.append(f)
if "--prune" in sys.argv:
    kf["findings"] = keep
    json.dump(kf, open("/verif/known_findings.json", "w"), ensure_ascii=False, indent=1)
