import sys,re
ids=sys.argv[1:]
p=''+__import__("os").path.dirname(__import__("os").path.dirname(__import__("os").path.abspath(__file__)))+'/harness/src/props/mod.rs'
s=open(p).read()
for i in ids:
    line=f"pub mod {i.lower()};\n"
    if line not in s: s+=line
s=''.join(sorted(set(s.splitlines(True))))
open(p,'w').write(s)
p=''+__import__("os").path.dirname(__import__("os").path.dirname(__import__("os").path.abspath(__file__)))+'/harness/src/main.rs'
s=open(p).read()
for i in ids:
    line=f'            "{i}" => $f(&props::{i.lower()}::{i} $(, $arg)*),\n'
    if line not in s:
        s=s.replace("            other => {\n                eprintln!(\"unknown property", line+"            other => {\n                eprintln!(\"unknown property")
open(p,'w').write(s)
