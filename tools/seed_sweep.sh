#!/bin/bash
# seed_sweep.sh <first seed> <last seed> [ids...]  -- runs the quick tier of every check for each seed, prints one line per run
# and the VIOLATION lines; used before finishing to make sure every check stays silent on the unchanged tree.
cd "$(dirname "$0")/.." || exit 3
a=$1; b=$2; shift 2
ids="${*:-C01 C02 C03 C04 C05 C06 C07 C08 C09 C10 C11 C12 C13 C14 C15 C16 C17 C18 C19 C20}"
for s in $(seq "$a" "$b"); do
  for p in $ids; do
    out=$(VERIF_SEED=$s ./check "$p" quick 2>&1); rc=$?
    echo "seed=$s $p exit=$rc $(echo "$out" | tail -1 | cut -c1-140)"
    if [ $rc -ne 0 ]; then echo "$out" | grep -A5 "^VIOLATION" | cut -c1-600; fi
  done
done
