#!/usr/bin/env python3
"""add_known.py <ID> <replay file under replays/<ID>/found/> "<what fails>"
Copies the replay into the committed regression tier and lists it in known_findings.json (status known)."""
import json, os, re, shutil, sys
pid, src, what = sys.argv[1], sys.argv[2], sys.argv[3]
v = json.load(open(src))
sig = v["signature"]
name = "known-" + re.sub(r"[^A-Za-z0-9_.-]+", "_", sig)[:80].strip("_") + ".json"
dst_dir = f"/verif/replays/{pid}"
os.makedirs(dst_dir, exist_ok=True)
dst = os.path.join(dst_dir, name)
shutil.copy(src, dst)
kf_path = "/verif/known_findings.json"
kf = json.load(open(kf_path))
if any(f["property"] == pid and f["signature"] == sig for f in kf["findings"]):
    print("already listed:", sig); sys.exit(0)
kf["findings"].append({"property": pid, "signature": sig, "status": "known", "replay": f"replays/{pid}/{name}", "what": what})
json.dump(kf, open(kf_path, "w"), ensure_ascii=False, indent=1)
print("added", pid, sig, "->", dst)
