#![no_main]
//! Generic libFuzzer target: the bytes are the random source (proptest pass-through RNG) of the *own strategy* of the
//! property named by MCV_FUZZ_PROP, and the generated case is judged by the same Property::eval as ./check <ID>.
//! Violations listed in known_findings.json are tolerated; anything else aborts (replay under replays/<ID>/found/).
use libfuzzer_sys::fuzz_target;
fuzz_target!(|data: &[u8]| {
    if data.len() < 8 || data.len() > 16384 {
        return;
    }
    mcv::fuzzing::run_bytes(data);
});
