#![no_main]
//! libFuzzer target for C08: bytes -> case (mcv::fuzzing::c08_case) -> the same oracle as ./check C08 (Property::eval);
//! violations listed in known_findings.json are tolerated, anything else aborts (and leaves a replay under replays/C08/found/).
use libfuzzer_sys::fuzz_target;
static P: mcv::fuzzing::C08Expr = mcv::fuzzing::C08Expr;
fuzz_target!(|data: &[u8]| {
    if data.len() > 4096 {
        return;
    }
    mcv::fuzzing::run(&P, mcv::fuzzing::c08_case(data));
});
