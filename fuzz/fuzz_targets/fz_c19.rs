#![no_main]
//! libFuzzer target for C19: bytes -> case (mcv::fuzzing::c19_case) -> the same oracle as ./check C19 (Property::eval);
//! violations listed in known_findings.json are tolerated, anything else aborts (and leaves a replay under replays/C19/found/).
use libfuzzer_sys::fuzz_target;
static P: mcv::props::c19::C19 = mcv::props::c19::C19;
fuzz_target!(|data: &[u8]| {
    if data.len() > 4096 {
        return;
    }
    mcv::fuzzing::run(&P, mcv::fuzzing::c19_case(data));
});
