#![no_main]
//! libFuzzer target for C02: bytes -> case (mcv::fuzzing::c02_case) -> the same oracle as ./check C02 (Property::eval);
//! violations listed in known_findings.json are tolerated, anything else aborts (and leaves a replay under replays/C02/found/).
use libfuzzer_sys::fuzz_target;
static P: mcv::props::c02::C02 = mcv::props::c02::C02;
fuzz_target!(|data: &[u8]| {
    if data.len() > 4096 {
        return;
    }
    mcv::fuzzing::run(&P, mcv::fuzzing::c02_case(data));
});
